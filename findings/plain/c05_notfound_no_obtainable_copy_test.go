package dmap

// Plain reproduction (no explorer, no hooks, unmodified olric) of the known finding
// C05/get-notfound-with-no-obtainable-copy. Copy into internal/dmap/ of a checkout and run
//   go test -count=1 -run TestFinding_C05 ./internal/dmap/
// It FAILS on the pinned tree: the last Get answers ErrKeyNotFound for a key that exists.

import (
	"context"
	"testing"

	"github.com/olric-data/olric/internal/cluster/partitions"
	"github.com/olric-data/olric/internal/testcluster"
	"github.com/olric-data/olric/internal/testutil"
	"github.com/stretchr/testify/require"
)

func TestFinding_C05_NotFoundWithNoObtainableCopy(t *testing.T) {
	cluster := testcluster.New(NewService)
	defer cluster.Shutdown()

	newMember := func() *Service {
		c := testutil.NewConfig()
		c.ReplicaCount = 2
		c.ReadQuorum = 1
		c.WriteQuorum = 1
		return cluster.AddMember(testcluster.NewEnvironment(c)).(*Service)
	}
	s1 := newMember()
	s2 := newMember()

	ctx := context.Background()
	dm1, err := s1.NewDMap("mydmap")
	require.NoError(t, err)

	// a key whose partition is owned by s1 (its backup copy lives on s2)
	var key string
	var hkey uint64
	for i := 0; ; i++ {
		key = testutil.ToKey(i)
		hkey = partitions.HKey("mydmap", key)
		if s1.primary.PartitionByHKey(hkey).Owner().CompareByID(s1.rt.This()) {
			break
		}
	}
	require.NoError(t, dm1.Put(ctx, key, []byte("value"), nil))

	// the owner holds no copy (a member that has just taken the partition over); the key exists
	// on the backup owner
	part := dm1.getPartitionByHKey(hkey, partitions.PRIMARY)
	f, err := dm1.loadFragment(part)
	require.NoError(t, err)
	f.Lock()
	err = f.storage.Delete(hkey)
	f.Unlock()
	require.NoError(t, err)
	gr, err := dm1.Get(ctx, key)
	require.NoError(t, err, "the backup copy is obtainable")
	require.Equal(t, []byte("value"), gr.Value())
	// the read above repaired the owner's copy; take it away again
	f.Lock()
	_ = f.storage.Delete(hkey)
	f.Unlock()

	// the only holder becomes unreachable
	require.NoError(t, s2.server.Shutdown(ctx)) // its RESP server stops answering; membership is unchanged

	_, err = dm1.Get(ctx, key)
	require.ErrorIs(t, err, ErrReadQuorum, "the key exists, zero copies are obtainable, ReadQuorum=1")
}
