package kvstore

// Plain reproduction (no explorer, no hooks) of the defect repaired in 701d668: copy into
// internal/kvstore/ of a checkout of the parent commit fa5ec17 and run
//   go test -count=1 -run TestFinding_ScanAfterIdleTableRelease ./internal/kvstore/
// It fails there ("key 0 is stored ... but the full scan did not return it") and passes from 701d668 on.

import (
	"fmt"
	"testing"
	"time"

	"github.com/olric-data/olric/internal/kvstore/entry"
	"github.com/olric-data/olric/pkg/storage"
	"github.com/stretchr/testify/require"
)

func TestFinding_ScanAfterIdleTableRelease(t *testing.T) {
	c := DefaultConfig()
	c.Add("tableSize", uint64(1024))
	c.Add("maxIdleTableTimeout", time.Duration(0))
	s, err := New(c)
	require.NoError(t, err)

	put := func(i int) {
		e := entry.New()
		e.SetKey(fmt.Sprintf("key-%04d", i))
		e.SetValue([]byte(fmt.Sprintf("%030d", i)))
		require.NoError(t, s.Put(uint64(i+1), e))
	}
	// 16 entries per table: table 0 = keys 0..15 (kept), table 1 = keys 16..31, table 2 = 32..
	for i := 0; i < 40; i++ {
		put(i)
	}
	require.Equal(t, 3, s.Stats().NumTables)
	for i := 16; i < 32; i++ {
		require.NoError(t, s.Delete(uint64(i+1)))
	}
	for {
		done, err := s.Compaction()
		require.NoError(t, err)
		if done {
			break
		}
	}
	seen := map[string]bool{}
	var cursor uint64
	for {
		cursor, err = s.Scan(cursor, 10, func(e storage.Entry) bool { seen[e.Key()] = true; return true })
		require.NoError(t, err)
		if cursor == 0 {
			break
		}
	}
	for i := 0; i < 40; i++ {
		if i >= 16 && i < 32 {
			continue
		}
		require.True(t, seen[fmt.Sprintf("key-%04d", i)], "key %d is stored (Get finds it) but the full scan did not return it", i)
	}
}
