#!/bin/bash
# usage: trymut.sh <patch.diff|-e 'sed expr' file> -- <check> [<check>...]   (applies to /repo, runs checks, reverts)
set -u
cd /verif
# evidence files are rewritten by every run: keep the ones of the unchanged tree
rm -rf build/evidence.keep && cp -r evidence build/evidence.keep
if [ "$1" = "-e" ]; then
  sed -i "$2" "/repo/$3"; shift 3
else
  git -C /repo apply "$1" || exit 2; shift
fi
[ "$1" = "--" ] && shift
git -C /repo diff --stat | tail -1
for c in "$@"; do
  out=$(./vcheck "$c" quick 2>&1); rc=$?
  echo "== $c exit=$rc: $(echo "$out" | grep -c '^VIOLATION') violations"; echo "$out" | grep -A2 '^VIOLATION' | head -8 | cut -c1-300
done
git -C /repo checkout -- .
rm -rf evidence && mv build/evidence.keep evidence
