#!/bin/bash
# usage: trymut.sh <patch.diff|-e 'sed expr' file> -- <check> [<check>...]   (applies to /repo, runs checks, reverts)
set -u
cd /verif
if [ "$1" = "-e" ]; then
  sed -i "$2" "/repo/$3"; shift 3
else
  git -C /repo apply "$1" || exit 2; shift
fi
[ "$1" = "--" ] && shift
git -C /repo diff --stat | tail -1
for c in "$@"; do
  out=$(./vcheck "$c" quick 2>&1); rc=$?
  echo "== $c exit=$rc: $(echo "$out" | grep -c '^VIOLATION') violations"; echo "$out" | grep -A2 '^VIOLATION' | head -8 | cut -c1-300
done
git -C /repo checkout -- .
