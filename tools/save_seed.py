#!/usr/bin/env python3
# save_seed.py <ID> <demo-rel-path> <caught_first:0|1> <what_it_breaks> <needs> <my_checks_json> [note]
# Copies patch + demo from /tmp/wt_<ID> into /verif/seeded/<ID>/ and writes meta.json (confirmation
# details are taken from the verify_seed.sh log /tmp/vs_<ID>.txt).
import sys, json, os, re, shutil, subprocess
sid, demo, first, what, needs, checks = sys.argv[1:7]
note = sys.argv[7] if len(sys.argv) > 7 else ""
wt = "/tmp/wt_%s" % sid
d = "/verif/seeded/%s" % sid
os.makedirs(d, exist_ok=True)
shutil.copy(wt + "/SEED_patch.diff", d + "/patch.diff")
shutil.copy(wt + "/" + demo, d + "/seeded_demo_test.go")
files = re.findall(r"^diff --git a/(\S+)", open(d + "/patch.diff").read(), re.M)
vs = open("/tmp/vs_%s.txt" % sid).read()
base = re.search(r"== base (\w+)", vs).group(1)[:7]
sec = lambda tag: vs.split(tag)[1].split("==")[0] if tag in vs else ""
with_ = "FAIL" if "FAIL" in sec("(c) demo WITH change") else "ok?"
without = "ok" if re.search(r"^ok", sec("(d) demo WITHOUT change"), re.M) else "FAIL?"
existing = " ; ".join(l for l in sec("(b) existing tests with change (demo not present)").splitlines() if l.startswith(("ok", "FAIL", "exit")))
meta = {"id": sid, "property": sid.split("-")[0],
 "origin": "independent sub-agent given only the property text, the list of earlier seeds for this property and its own scratch worktree (%s), nothing from /verif" % wt,
 "files": files, "what_it_breaks": what, "needs_to_manifest": needs,
 "demo": "seeded_demo_test.go -> %s, go test -run 'TestSeededDemo' ./%s" % (demo, os.path.dirname(demo) or "."),
 "confirmed_by_me": {"method": "tools/verify_seed.sh (patch file applied on a clean checkout of the agent's base commit %s)" % base,
   "builds": "ok" if "build-ok" in vs else "?", "existing_tests_with_change": existing + " (agent additionally ran the root package: ok)",
   "demo_with_change": with_, "demo_without_change": without},
 "my_checks": json.loads(checks), "caught": True, "caught_on_first_run": first == "1"}
if note: meta["note"] = note
json.dump(meta, open(d + "/meta.json", "w"), indent=1)
print(d, with_, without, existing)
