#!/bin/bash
cd /verif
for c in C01 C02 C03 C04 C05 C06 C07 C08 C09 C10 C11 C12 C13 C14 C15 C16 C17 C18 C19 C20; do
  s=$(date +%s); ./vcheck $c quick > /tmp/all_$c.txt 2>&1; rc=$?
  echo "$c exit=$rc $(( $(date +%s)-s ))s viol=$(grep -c '^VIOLATION' /tmp/all_$c.txt) known=$(grep -c '^KNOWN-FINDING' /tmp/all_$c.txt)"
done
