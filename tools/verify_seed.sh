#!/bin/bash
# verify_seed.sh <ID> <demo-test-relative-path> <go test args for existing tests...>
# Independent confirmation of a seeded change from its PATCH FILE on a clean checkout (never trusts the
# agent's worktree state: git stash is shared between worktrees).
set -u
. /verif/env.sh
ID=$1; DEMO=$2; shift 2
SRC=/tmp/wt_$ID; VF=/tmp/vf_$ID
BASE=$(git -C $SRC rev-parse HEAD)
git -C /repo worktree remove --force $VF 2>/dev/null
git -C /repo worktree add -q --detach $VF $BASE || exit 2
cd $VF
echo "== base $BASE ; patch:"; git apply --stat $SRC/SEED_patch.diff | tail -3
git apply $SRC/SEED_patch.diff || { echo "PATCH DOES NOT APPLY"; exit 2; }
echo "== (a) build"; go build ./... && echo build-ok
echo "== (b) existing tests with change (demo not present)"
go test -vet=off -count=1 "$@" > /tmp/vf_${ID}_existing.log 2>&1; echo "exit=$?"; grep -E "^(ok|FAIL|--- FAIL)" /tmp/vf_${ID}_existing.log
cp $SRC/$DEMO $VF/$DEMO
PKG=./$(dirname $DEMO)
echo "== (c) demo WITH change"
go test -vet=off -count=1 -run 'TestSeededDemo' $PKG > /tmp/vf_${ID}_with.log 2>&1; echo "exit=$?"; grep -E "^(--- FAIL|ok|FAIL)" /tmp/vf_${ID}_with.log | head -3
git apply -R $SRC/SEED_patch.diff
echo "== (d) demo WITHOUT change"
go test -vet=off -count=1 -run 'TestSeededDemo' $PKG > /tmp/vf_${ID}_without.log 2>&1; echo "exit=$?"; grep -E "^(--- FAIL|ok|FAIL)" /tmp/vf_${ID}_without.log | head -3
cd /; git -C /repo worktree remove --force $VF
