#!/bin/bash
cd /verif
for c in "$@"; do
  s=$(date +%s); ./vcheck $c thorough > /tmp/th_$c.txt 2>&1; rc=$?
  echo "$c exit=$rc $(( $(date +%s)-s ))s viol=$(grep -c '^VIOLATION' /tmp/th_$c.txt) known=$(grep -c '^KNOWN-FINDING' /tmp/th_$c.txt)"
done
