#!/bin/bash
# Race-detector supplement (diagnostic, not a deciding check): builds the harness with -race and runs
# the thread bodies of the time-free schedmc families free-running (no cooperative scheduler).
# usage: tools/racepass.sh [families] [rounds]     default: C01,C07,C14 20
set -u
cd "$(dirname "$0")/.."
. ./env.sh
FAM=${1:-C01,C07,C14}; ROUNDS=${2:-20}
mkdir -p build/race bin; rm -f build/race/report.*
./build.sh >build/build.log 2>&1 || { cat build/build.log; exit 2; }
( cd "$REPO" && go build -race -tags verif -modfile="$VERIF/build/go.mod" -overlay "$VERIF/build/overlay.json" -o "$VERIF/bin/vcheck-race" ./internal/verif/cmd/vcheck ) || exit 2
GORACE="halt_on_error=0 log_path=$VERIF/build/race/report history_size=3" ./bin/vcheck-race racepass "$FAM" "$ROUNDS" | tail -3
python3 tools/racesummary.py build/race
