#!/bin/bash
# usage: trymut2.sh <patch.diff> -- <check> [<check>...]
# Like trymut.sh, but isolated: a scratch worktree of /repo with the patch applied and a scratch copy of
# /verif (own build/ and bin/), so that /repo and long-running checks in /verif are not disturbed.
set -u
PATCH=$(readlink -f "$1"); shift; [ "$1" = "--" ] && shift
VM=/tmp/vm_$$; mkdir -p $VM
trap 'git -C /repo worktree remove --force $VM/repo 2>/dev/null; rm -rf $VM' EXIT
git -C /repo worktree add -q --detach $VM/repo HEAD || exit 2
git -C $VM/repo apply "$PATCH" || { echo "PATCH DOES NOT APPLY"; exit 2; }
git -C $VM/repo diff --stat | tail -1
mkdir -p $VM/verif
rsync -a --exclude build --exclude bin --exclude .git --exclude replay --exclude evidence /verif/ $VM/verif/
mkdir -p $VM/verif/evidence $VM/verif/replay
sed -i "s#=> /repo#=> $VM/repo#" $VM/verif/conform/go.mod
export VERIF=$VM/verif REPO=$VM/repo
for c in "$@"; do
  out=$($VM/verif/vcheck "$c" quick 2>&1); rc=$?
  echo "== $c exit=$rc: $(echo "$out" | grep -c '^VIOLATION') violations"; echo "$out" | grep -A2 '^VIOLATION' | head -8 | cut -c1-400
  [ $rc -ge 2 ] && echo "$out" | grep -v "^\s*$" | head -40 | cut -c1-300
done
