module ovgen

go 1.23
