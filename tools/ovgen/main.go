// ovgen generates the go build overlay that turns /repo's *current* working tree into the
// explorable build: import rewrites to shim packages, fake discovery, accessor (hook) files,
// the harness as virtual packages inside the module, and the runtime patch.
//
// usage: ovgen <repo> <verif> <outdir>
package main

import (
	"encoding/json"
	"fmt"
	"go/ast"
	"go/parser"
	"go/token"
	"os"
	"os/exec"
	"path/filepath"
	"sort"
	"strconv"
	"strings"
)

const shimBase = "github.com/olric-data/olric/internal/verif/shim/"

// per directory (relative to the repo root) import path rewrites.
var rules = map[string]map[string]string{}

func add(dirs []string, from, to string) {
	for _, d := range dirs {
		if rules[d] == nil {
			rules[d] = map[string]string{}
		}
		rules[d][from] = shimBase + to
	}
}

func init() {
	syncDirs := []string{"internal/dmap", "internal/locker", "internal/cluster/partitions", "internal/kvstore/table",
		"internal/pubsub", "internal/cluster/routingtable", "internal/cluster/balancer"}
	add(syncDirs, "sync", "vsync")
	timeDirs := append([]string{"internal/kvstore", "internal/discovery", "."}, syncDirs...)
	add(timeDirs, "time", "vtime")
	add([]string{"internal/dmap"}, "context", "vctx")
	add([]string{"internal/dmap", "internal/cluster/routingtable", "."}, "golang.org/x/sync/errgroup", "verrgroup")
}

// files (the client operation paths) in which `go f(args)` statements become vsync.Go(...) calls with
// the same evaluation order: by default still a goroutine, under a harness that sets vsync.Spawn a
// queued closure that runs when the explorer delivers it (asynchronous replication as an event).
var goRewrite = map[string]bool{"internal/dmap/put.go": true, "internal/dmap/get.go": true}

// files of /repo replaced wholesale by files of /verif/fake
var replaced = map[string]string{
	"internal/discovery/discovery.go": "fake/discovery.go",
	"internal/discovery/events.go":    "fake/events.go",
	"internal/discovery/delegate.go":  "fake/delegate.go",
}

func must(err error) {
	if err != nil {
		fmt.Fprintln(os.Stderr, "ovgen:", err)
		os.Exit(2)
	}
}

func main() {
	if len(os.Args) != 4 {
		fmt.Fprintln(os.Stderr, "usage: ovgen <repo> <verif> <outdir>")
		os.Exit(2)
	}
	repo, verif, out := os.Args[1], os.Args[2], os.Args[3]
	ov := map[string]string{}
	rw := filepath.Join(out, "rw")
	must(os.RemoveAll(rw))
	nrw := 0
	// 1. import rewrites
	dirs := make([]string, 0, len(rules))
	for d := range rules {
		dirs = append(dirs, d)
	}
	sort.Strings(dirs)
	for _, d := range dirs {
		ents, err := os.ReadDir(filepath.Join(repo, d))
		must(err)
		for _, e := range ents {
			n := e.Name()
			if e.IsDir() || !strings.HasSuffix(n, ".go") || strings.HasSuffix(n, "_test.go") {
				continue
			}
			rel := filepath.Join(d, n)
			if _, ok := replaced[filepath.ToSlash(rel)]; ok {
				continue
			}
			src := filepath.Join(repo, rel)
			data, err := os.ReadFile(src)
			must(err)
			fset := token.NewFileSet()
			mode := parser.ImportsOnly
			if goRewrite[filepath.ToSlash(rel)] {
				mode = 0
			}
			f, err := parser.ParseFile(fset, src, data, mode)
			must(err)
			type edit struct {
				off, end int
				s        string
			}
			var edits []edit
			if goRewrite[filepath.ToSlash(rel)] {
				text := func(n ast.Node) string {
					return string(data[fset.Position(n.Pos()).Offset:fset.Position(n.End()).Offset])
				}
				found := false
				ast.Inspect(f, func(n ast.Node) bool {
					g, ok := n.(*ast.GoStmt)
					if !ok {
						return true
					}
					var names, vals []string
					for i, a := range g.Call.Args {
						names = append(names, fmt.Sprintf("vgoA%d", i))
						vals = append(vals, text(a))
					}
					s := "{ vgoF := " + text(g.Call.Fun) + "; "
					if len(names) > 0 {
						s += strings.Join(names, ", ") + " := " + strings.Join(vals, ", ") + "; "
					}
					call := strings.Join(names, ", ")
					if g.Call.Ellipsis.IsValid() {
						call += "..."
					}
					s += "vgo.Go(func() { vgoF(" + call + ") }) }"
					edits = append(edits, edit{fset.Position(g.Pos()).Offset, fset.Position(g.End()).Offset, s})
					found = true
					return true
				})
				if found {
					off := fset.Position(f.Name.End()).Offset
					edits = append(edits, edit{off, off, "; import vgo " + strconv.Quote(shimBase+"vsync")})
				}
			}
			for _, im := range f.Imports {
				p, _ := strconv.Unquote(im.Path.Value)
				if to, ok := rules[d][p]; ok {
					edits = append(edits, edit{fset.Position(im.Path.Pos()).Offset, fset.Position(im.Path.End()).Offset, strconv.Quote(to)})
				}
			}
			if len(edits) == 0 {
				continue
			}
			sort.Slice(edits, func(i, j int) bool { return edits[i].off > edits[j].off })
			s := string(data)
			for _, e := range edits {
				s = s[:e.off] + e.s + s[e.end:]
			}
			dst := filepath.Join(rw, rel)
			must(os.MkdirAll(filepath.Dir(dst), 0o755))
			must(os.WriteFile(dst, []byte(s), 0o644))
			ov[src] = dst
			nrw++
		}
	}
	// 2. fake discovery
	for to, from := range replaced {
		ov[filepath.Join(repo, to)] = filepath.Join(verif, from)
	}
	// 3. accessor files: /verif/hooks/<dir>/<f>.go -> /repo/<dir>/zz_verif_<f>.go
	must(filepath.Walk(filepath.Join(verif, "hooks"), func(p string, info os.FileInfo, err error) error {
		if err != nil || info.IsDir() || !strings.HasSuffix(p, ".go") {
			return err
		}
		rel, _ := filepath.Rel(filepath.Join(verif, "hooks"), p)
		ov[filepath.Join(repo, filepath.Dir(rel), "zz_verif_"+filepath.Base(rel))] = p
		return nil
	}))
	// 4. virtual packages
	for _, m := range [][2]string{{"harness", "internal/verif"}, {"shim", "internal/verif/shim"}} {
		base := filepath.Join(verif, m[0])
		must(filepath.Walk(base, func(p string, info os.FileInfo, err error) error {
			if err != nil || info.IsDir() || !strings.HasSuffix(p, ".go") {
				return err
			}
			rel, _ := filepath.Rel(base, p)
			ov[filepath.Join(repo, m[1], rel)] = p
			return nil
		}))
	}
	// 5. runtime patch
	gorootB, err := exec.Command("go", "env", "GOROOT").Output()
	must(err)
	goroot := strings.TrimSpace(string(gorootB))
	for _, n := range []string{"map.go", "alg.go", "verif_hook.go"} {
		p := filepath.Join(out, "rt", n)
		if _, err := os.Stat(p); err != nil {
			must(fmt.Errorf("runtime patch missing: %s (run tools/rtpatch.py)", p))
		}
		ov[filepath.Join(goroot, "src", "runtime", n)] = p
	}
	data, _ := json.MarshalIndent(map[string]interface{}{"Replace": ov}, "", " ")
	must(os.WriteFile(filepath.Join(out, "overlay.json"), data, 0o644))
	// module files: copies, so that /repo is never written
	for _, n := range []string{"go.mod", "go.sum"} {
		b, err := os.ReadFile(filepath.Join(repo, n))
		must(err)
		must(os.WriteFile(filepath.Join(out, n), b, 0o644))
	}
	fmt.Printf("ovgen: %d files rewritten, %d overlay entries\n", nrw, len(ov))
}
