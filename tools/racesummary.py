#!/usr/bin/env python3
"""Summarises race-detector reports: which involve olric code (not only harness code)."""
import sys, glob, re, json, collections
d = sys.argv[1]
reports = []
for f in glob.glob(d + "/report.*"):
    txt = open(f, errors="replace").read()
    reports += [r for r in txt.split("==================") if "DATA RACE" in r]
def frames(block):
    return re.findall(r"^\s+([\w./\-*()\[\]]+)\(.*?\)?\n\s+(\S+):(\d+)", block, re.M)
sigs = collections.Counter()
detail = {}
for r in reports:
    parts = re.split(r"\n(?=Previous |Goroutine )", r)
    acc = [p for p in parts if p.lstrip().startswith(("WARNING", "Write", "Read", "Previous"))][:2]
    tops = []
    for a in acc:
        fr = [x for x in frames(a) if "/usr/lib/go" not in x[1] and "build/rt/" not in x[1]]
        tops.append(fr[0] if fr else ("?", "?", "0"))
    in_olric = all("/internal/verif/" not in t[1] and t[1] != "?" for t in tops) and any("/repo/" in t[1] or "olric" in t[0] for t in tops)
    sig = " <-> ".join(sorted("%s (%s:%s)" % (t[0].split("/")[-1], t[1].split("/repo/")[-1], t[2]) for t in tops))
    sigs[(in_olric, sig)] += 1
    detail.setdefault((in_olric, sig), r.strip()[:1800])
out = {"reports": len(reports), "distinct": len(sigs),
       "in_olric_code": [{"where": s, "count": n} for (o, s), n in sigs.most_common() if o],
       "harness_only": [{"where": s, "count": n} for (o, s), n in sigs.most_common() if not o]}
print(json.dumps(out, indent=1))
json.dump({"summary": out, "first_report_per_signature": {s: detail[(o, s)] for (o, s) in detail if o}}, open(d + "/summary.json", "w"), indent=1)
