import sys,json
pid=sys.argv[1]; tag=sys.argv[2]
avoid={}
import glob
for d in glob.glob('/verif/seeded/%s-*/meta.json'%pid):
    m=json.load(open(d)); avoid[m['id']]=(','.join(m['files']), m['what_it_breaks'][:220])
for l in open('/verif/properties.jsonl'):
    p=json.loads(l)
    if p['id']==pid:
        prop="Title: %s\n\nStatement: %s\n\nQuantified over: %s\n\nWhy the existing tests cannot settle it: %s\n\nAnchors (files): %s\n"%(p['title'],p['statement'],p['quantifier']['text'],p['why_tests_cant'],", ".join(p['anchors']['files']))
wt="/tmp/wt_%s%s"%(pid,tag)
av="\n".join("  - in %s: %s ..."%v for v in avoid.values())
text=f"""You are helping to evaluate a verification tool for the Go project olric (a distributed in-memory key/value store, module github.com/olric-data/olric). Your job is to play the role of a developer who introduces a realistic, subtle regression.

You have your own scratch git worktree of the repository at {wt} (detached HEAD). Work ONLY inside {wt}. Do not touch /repo, /verif or any other directory; do not read /verif. NEVER use `git stash` (the stash is shared between worktrees); to save or undo work use `git diff > file` and `git apply -R file` or `git checkout -- <path>`. The sandbox has no network: before every go command run
  export GOFLAGS=-mod=mod GOPROXY=off GOSUMDB=off GOTOOLCHAIN=local

Here is a semantic property of olric that is supposed to hold:

{prop}

Other engineers have already tried the following regressions for this property; choose a DIFFERENT mechanism - a different function, preferably a different file, and a different clause of the statement:
{av}

Task: make ONE small, realistic change to the non-test source code (something a developer could plausibly write as an optimisation, refactoring, clean-up or bug fix gone wrong - not sabotage like deleting a whole function, and not a change to test files, build files or comments only) such that:
 1. the repository still compiles (`go build ./...` must succeed);
 2. the existing tests of the packages you touched, and of the root package, still pass (run them: e.g. `go test -count=1 ./internal/<pkg>/...` and `go test -count=1 -timeout 20m .`; a few tests in this repository are timing-flaky on a loaded machine - re-run a failing test alone before concluding; if a test fails deterministically because of your change, pick another change);
 3. the property above is violated by the changed code, but only under some specific circumstance (a particular option combination, configuration value, cluster size, ordering of operations, member role, boundary value ...) - not on the most basic path that every existing test exercises.
 4. you demonstrate the violation with a NEW test file (name it seeded_demo_test.go, in whatever package is convenient, using the helpers that the existing tests of that package use) that FAILS with your change and PASSES without it. Verify both: run it with the change; then `git diff -- . ':(exclude)*seeded_demo_test.go' > {wt}/SEED_patch.diff`, revert the source change with `git apply -R`, run the demo again (must pass), and re-apply the patch with `git apply`.

When done, leave in {wt}: the changed source (applied), SEED_patch.diff (the source change only, without the demo test), the seeded_demo_test.go file, and reply with: the path of the demo test, the exact `go test` command that runs it, a two-sentence description of the change, and precisely what is needed for the violation to manifest. Keep the change under about 15 changed lines. Be efficient: the machine is shared, prefer running single packages / single tests over the whole suite."""
open('/tmp/prompt_%s%s.txt'%(pid,tag),'w').write(text)
print(wt)
