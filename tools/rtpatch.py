#!/usr/bin/env python3
"""Generate patched copies of three GOROOT runtime files (map iteration start and hash seeds
become deterministic / harness controlled). Each rule asserts its hit count."""
import os, re, subprocess, sys
out = sys.argv[1]
goroot = subprocess.check_output(["go", "env", "GOROOT"], text=True).strip()
rt = os.path.join(goroot, "src", "runtime")
os.makedirs(out, exist_ok=True)
def patch(name, rules):
    s = open(os.path.join(rt, name)).read()
    for pat, rep, hits in rules:
        n = s.count(pat)
        if n != hits:
            sys.exit("rtpatch: %s: %r expected %d hits, got %d" % (name, pat, hits, n))
        s = s.replace(pat, rep)
    open(os.path.join(out, name), "w").write(s)
patch("map.go", [
    ("r := uintptr(rand())", "r := uintptr(verifMapIterVal)", 1),
    ("h.hash0 = uint32(rand())", "h.hash0 = verifHash0", 4),
])
patch("alg.go", [
    ("hashkey[i] = uintptr(bootstrapRand())", "hashkey[i] = uintptr(0x9e3779b97f4a7c15 + uint64(i)*0x1234567)", 1),
    ("key[i] = bootstrapRand()", "key[i] = 0x9e3779b97f4a7c15 + uint64(i)*0x1234567", 1),
])
open(os.path.join(out, "verif_hook.go"), "w").write('''package runtime

// Added by /verif (overlay only): deterministic map iteration and goroutine ids.
const verifHash0 = uint32(0x9e3779b9)

var verifMapIterVal uint64

// VerifSetMapIter sets the value used as "random" start of every map iteration.
func VerifSetMapIter(v uint64) { verifMapIterVal = v }

// VerifGoid returns the id of the calling goroutine.
func VerifGoid() uint64 { return getg().goid }
''')
print(goroot)
