#!/usr/bin/env python3
"""Writes /verif/MANIFEST.json from the table below (kept in one place so it stays valid)."""
import json, os, subprocess
V = os.path.dirname(os.path.dirname(os.path.abspath(__file__)))
checks = {
 "C11": dict(cat="model_checking", engine="kvmc", ref="6 C11",
   technique="explicit-state BFS over the real KVStore (path replay, canonical-layout de-duplication) with a reference map oracle in every state",
   text="Every operation path up to the depth bound over {put,putraw,del,ttl,compact,transfer} x 3 keys x 2 sizes, for table sizes 128 and 200, is executed on the real kvstore; in every distinct state all lookup and iteration primitives are compared with a reference map and compaction-until-done is checked to terminate within a bound and to preserve the map.",
   note="trusts the canonical form (documented in kvmc.Canon) and the reference map; hkeys are driver-chosen; value alphabet is 2 sizes"),
 "C12": dict(cat="model_checking", engine="kvmc", ref="6 C12",
   technique="explicit-state BFS over the real KVStore; full cursor scans (COUNT x MATCH grid) evaluated in every reachable state",
   text="In every state of the bounded BFS over the real kvstore a complete cursor iteration is run for COUNT in {1,2,10} and MATCH in {none,^a,^zz}; it must terminate and return every present matching key and no absent key; in addition a COUNT=1 scan is run with every single operation of the alphabet applied between two cursor calls, at every position: keys present before and after must be yielded, never-present keys must not, the scan terminates.",
   note="storage level covered exhaustively within the depth bound; cluster-level iterators are covered by the cluster part when built"),
}
checks.update({
 "C01": dict(cat="model_checking", engine="schedmc", ref="6 C01",
   technique="stateless exploration of thread interleavings (iterative preemption bounding) of real olric members under a cooperative scheduler; linearizability check of every history",
   text="Every schedule with at most 2 preemptions (completed for every program in both tiers; the thorough tier then goes on to 3 preemptions as far as its time budget allows and reports how far it got) of every program in a family (2-3 client threads, 1-2 ops each from Put/PutNX/PutXX/Get/Delete on one key, entry-point tuples over embedded-owner, embedded-non-owner, cluster client, raw RESP; replica counts and single/multi-table fragments; janitor/compaction background thread) is executed on a fresh real cluster; each history must be linearizable w.r.t. a register specification and final reads from every member must agree.",
   note="trusts the shims (sync/time/errgroup import rewrites), simnet and the cooperative scheduler's sequentially consistent view; errgroup siblings run in call order"),
 "C04": dict(cat="model_checking", engine="clustermc", ref="6 C04",
   technique="explicit-state BFS over operation sequences on a simulated cluster of real members (path replay, canonical-state de-duplication); white-box comparison of backup and primary copies after every step",
   text="All sequences up to depth 4 (quick) / 5 (thorough) over every mutating operation and option form, clock ticks and eviction, through each entry point, R in {2,3}: after every acknowledged step each listed backup holds a copy identical to the primary (value, expiry, timestamp) or none when the primary has none. Small-table configurations add a fill event (the key's versions spread over storage tables). LRU part: Put sequences over four keys on replicated clusters with MaxKeys / MaxInuse small enough to evict, the same mirror oracle after every Put.",
   note="white-box copies decoded via verif accessors; reference model only used for step expectations; also: two configurations with asynchronous replication (replication calls delivered after every step), non-initial start states, and a concurrent part (schedule exploration of a lock take-over after a lease, R=3, mirror oracle on the final state)"),
 "C07": dict(cat="model_checking", engine="schedmc", ref="6 C07",
   technique="stateless exploration of thread interleavings (iterative preemption bounding) on real members; histories checked against counter / exchange-chain specifications",
   text="Every schedule with at most 2 preemptions (completed for every program in both tiers; thorough continues with 3 within its time budget) of 2-3 concurrent Incr/Decr/IncrByFloat/GetPut callers over all entry-point multisets and cluster configurations; returned values must form a sequential counter history (or a single GetPut chain) and the final value must equal initial + sum of deltas from every member.",
   note="same trusted base as C01"),
 "C08": dict(cat="model_checking", engine="schedmc", ref="6 C08",
   technique="stateless exploration of thread interleavings and virtual-clock advances (deviation bounding) on real members; interval oracle on virtual time stamps",
   text="Every schedule (thread switches and clock advances) with at most 2 deviations (completed for every program in both tiers; thorough continues with 3 within its time budget) of lock programs with 2-3 contenders (Lock with/without timeout and deadline, Unlock, Lease, sleeps; entry-point tuples): certain-hold intervals never overlap, Lock gives up no earlier than its deadline, a lock is acquirable within two poll periods once nobody can hold it, own unlock of an untimed lock succeeds.",
   note="time is the virtual clock (1ns per Now, explicit advances); 1ms ttl resolution tolerated"),
 "C09": dict(cat="model_checking", engine="clustermc", ref="6 C09",
   technique="explicit-state BFS over operation/tick sequences on a simulated cluster under a virtual clock; reference model with millisecond expiry compared at every step and in every state",
   text="All sequences up to depth 5 (quick) / 6 (thorough) over Put with every option form, Expire, Get, GetPut, Incr, ticks landing 1ms before/at/after deadlines and eviction passes, through EO/EN/CC (plus R=2, default TTL given globally and per DMap, and non-initial start states; RN in thorough): every result and a Get from every member in every state agree with the reference model.",
   note="ticks and deadlines are whole milliseconds so comparisons never fall inside the stored resolution"),

 "C05": dict(cat="fault_enumeration", engine="faultgrid", ref="6 C05",
   technique="exhaustive enumeration of the quorum configuration grid x injected unreachable-backup subsets x entry points on real members (simnet fault injection), white-box copy counts",
   text="Full grid over (ReplicaCount, WriteQuorum, ReadQuorum) with quorum <= replicas, every subset of backup owners unreachable during the Put and during the Get, three entry points (plus killed-undetected members in thorough): Put acknowledged iff at least W copies were stored, an unreachable backup never fails a Put that can still reach W, the error is the write-quorum error otherwise; Get returns a value only with at least RQ obtainable copies and the read-quorum error when an acknowledged key has too few. Member-count quorum: every registered command and NewDMap answer the cluster-quorum error below the quorum and leave the state unchanged.",
   note="unreachable = refused connection from the partition owner; internal.node.updaterouting exempt (it is how a member becomes operable)"),
 "C06": dict(cat="model_checking", engine="faultgrid", ref="6 C06",
   technique="exhaustive enumeration of copy layouts and of fragment delivery sequences (orders with repetition) through the real move-fragment handler and the real read path",
   text="Merge: every target content x every sequence with repetition of deliveries (length <= 2 quick / 3 thorough) of real exported kvstore tables over keys {a,b} and timestamps {1,2,2-tie,3}: after each delivery the target holds a newest copy of every key. Read: all 255 layouts of copies over {owner, previous owner, backup1, backup2} x timestamps {absent,1,2,3} (plus R=1 layouts) x read-repair on/off x 3 entry points: Get returns a newest copy; with read-repair the owner's copy and every backup that held a different version equal the winner.",
   note="backups holding no copy are not demanded to be repaired (the statement says 'stale backup copy')"),
 "C10": dict(cat="model_checking", engine="clustermc", ref="6 C10",
   technique="explicit-state BFS over Put/Get/tick/eviction sequences per eviction configuration on real members; white-box per-partition and per-member bounds after every step",
   text="For every (partition count, MaxKeys incl. values below the partition count or MaxInuse, LRUSamples in {1,2,5}, 1-2 members) configuration all Put sequences up to depth 4 (quick) / 5 (thorough) over 4-5 keys: every Put succeeds, the written key is readable, each owned partition holds at most max(1,MaxKeys/owned) keys (or its byte share plus one entry), the member at most max(MaxKeys,owned). Idle: sequences over Put/Get/Tick 60ms/Tick 120ms/eviction with a 100ms window: a key touched within the window is never evicted or unreadable, an untouched one is gone after three full eviction passes.",
   note="'eventually disappears' is read as: gone after three full eviction passes; a read after the window counts as a touch"),
 "C15": dict(cat="model_checking", engine="faultgrid", ref="6 C15",
   technique="exhaustive differential enumeration: every (operation, option combination, pre-state, replica count) case through all six client paths on fresh real clusters under a virtual clock",
   text="232 cases (Put x {-,NX,XX} x {-,EX,PX,EXAT,PXAT}, Expire, GetPut, Incr, Decr, IncrByFloat, Lock, LockWithTimeout, Unlock, Lease, Delete, Get x pre-state {absent, present, with ttl, expired-not-evicted} x R in {1,2}; multi-key Delete x placements x map rotations) x paths {EO, EN, CC, RO, RN, PL}: result class, returned value and decoded stored copies (value, expiry to the millisecond, role) must be identical on all paths; a multi-key Delete must remove every key.",
   note="differential oracle: it says the paths agree, C09/C04 say what the right answer is"),
 "C19": dict(cat="model_checking", engine="clustermc", ref="6 C19",
   technique="explicit-state BFS over operation sequences on two colliding DMaps on real members; two independent reference models plus byte-level isolation and white-box Destroy oracles",
   text="All sequences up to depth 3 (quick) / 4 (thorough) of Put, Delete, Incr, Lock, Expire, Destroy, Scan, tick, eviction on two DMaps whose names and keys collide (\"ab\"+\"c\" vs \"a\"+\"bc\", identical keys, \"x\" vs \"dmap.x\"), N in 1..3, R in 1..2, entry EO/EN/CC: each DMap reads per its own model from every member, an operation on one never changes a stored byte of the other, after Destroy no copy or fragment of that DMap exists anywhere and it is usable again.",
   note="client Scan only through the cluster client (EmbeddedDMap.Scan opens a real TCP client)"),

 "C13": dict(cat="model_checking", engine="clustermc", ref="6 C13",
   technique="explicit-state BFS over membership events on real members with a harness-driven membership layer; routing-table validity oracle on every stabilised state, on every member and through a cluster client",
   text="All sequences up to depth 3 (quick) / 4 (thorough) of {join, graceful leave, crash+detection, crash+restart before detection of the oldest (coordinator) / youngest / a middle member, re-join under the same address} from 1-3 initial members, R in 1..3, P in {7,13}, with and without stored data; after each event the cluster is stabilised and: all members and a cluster client hold the same table, every primary owner is live, the current backups are min(R,N)-1 distinct live non-primary members, further listed owners are live and hold data, no departed id is listed, nobody exceeds ceil(P/N*LoadFactor), the coordinator is the oldest member everywhere, keys map to one owner.",
   note="membership events come from the fake discovery layer (overlay replacement of 3 files of internal/discovery); its conformance to real memberlist is not yet replayed in this round: traces_validated_against_impl=0"),

 "C20": dict(cat="model_checking", engine="kvmc", ref="6 C20",
   technique="explicit-state search TO A FIXPOINT over canonical post-compaction layouts of the real KVStore (bursts of operations followed by compaction until done); closure of the state space proves the bounds for workloads of any length over the alphabet",
   text="States are post-compaction store layouts in canonical form; a transition is any burst of 1..3 (quick) / 1..4 (thorough) operations from {Put or PutRaw(k,size), Delete(k)} over 2 (quick) / 3 (thorough) keys and two sizes, followed by Compaction() until done; primary (Put) and backup (PutRaw) mode, idle-table timeout 0 and 15 minutes. After every burst: inuse+garbage=offset per table, sum of inuse = live bytes, Length = live keys. On every post-compaction state: no live table at or above the 40% garbage threshold, tables <= live keys + 2, recycled tables released when the timeout is 0. The search runs until no burst produces a new state (fixpoint), which it does on the current tree. Cluster part: BFS over Put / Delete / compaction pass (the real compaction worker body on every member for every partition) on a replicated cluster with 128-byte tables; after every pass every primary and backup fragment on every member is within the same bounds.",
   note="soundness of the closure argument rests on kvmc.Canon (documented there): layout, numbering gaps and per-key version order are kept, absolute coefficients/timestamps/last-access dropped; ttl-expiry churn is represented by Delete (the store never interprets ttl)"),

 "C16": dict(cat="exploration", engine="inputmc", ref="6 C16",
   technique="exhaustive enumeration of argument vectors over a token alphabet for every registered command through the real command multiplexer, plus all short byte strings through the RESP reader; crash-isolated workers with a wall-clock watchdog that re-runs a hung batch request by request",
   text="For each of the 32 registered commands (the list is read from the server at run time): every argument vector of length 0..3 (quick) / 0..4 (thorough) over a 24-token alphabet, the vectors of length <= 2 behind 16 plausible positional prefixes (reaching 'valid request + option without its value / unknown option'), upper-case command names through a second member, and every byte string of length <= 5/6 over {* $ 1 2 - CR LF a SP} through redcon's reader: no panic, a reply is written, PING on the same connection and a Put/Get round trip on another connection succeed afterwards; a request that keeps the CPU past the watchdog is named.",
   note="handlers are called through the real multiplexer, not through sockets; a handler that only waits in virtual time is waiting, not wedged; random byte streams at socket level are sampling and outside this family"),

 "C17": dict(cat="exploration", engine="inputmc", ref="6 C17",
   technique="exhaustive enumeration of type-boundary values x key lengths x entry sizes around the table size x client paths x stages (direct, fail-over to the backup copy, migration after a join) on real members; typed read-back comparison plus white-box absence check for rejected writes",
   text="61 boundary values over every supported type (integer widths at min/-1/0/1/max, floats incl. -0/denormal/max/Inf/NaN, bool, strings and byte slices incl. empty, NUL, CR LF, RESP look-alikes, non-UTF8, 1 KiB, time incl. zone and year 9999, duration min/max, BinaryMarshaler) x paths {EO, EN, CC} x stages {direct read, read after the owner crashed (R=2: the backup copy serves), read after a join and balancing}; key lengths {0,1,254,255,256,257,300}; entries of tableSize-3..+2 bytes in 512-byte tables. Accepted writes read back equal into the same type at every stage and two neighbour keys of the same partition stay intact; rejected writes return exactly ErrKeyTooLarge / ErrEntryTooLarge and leave no copy (and no undecodable entry) on any member; a call that never returns is named by the watchdog.",
   note="quick pairs every value with the plain key plus a rotating special key, thorough crosses them fully; values above 1 KiB (e.g. > 64 KiB) are not in the alphabet"),

 "C18": dict(cat="model_checking", engine="faultgrid", ref="6 C18",
   technique="exhaustive enumeration of (way a value was obtained) x client path x every bounded sequence of memory-disturbing follow-up events on real members; byte-for-byte comparison of the held value with the copy taken at return time, and of the store with what it should hold after the caller scribbled over its value",
   text="Handles {Get.Byte, Get.String, Get.Scan into *[]byte / *string, GetPut's old value, iterator key} x paths {EO, EN, CC} x all sequences of length <= 2 (quick) / 3 (thorough) over {overwrite same size, overwrite larger, delete, churn that fills/compacts/recycles/reuses the partition's tables, compaction, caller overwrites the returned bytes, join + rebalancing} x table sizes {128 B, 64 KiB}: the held value never changes, a caller's writes never reach the store, and the buffer passed to Put may be overwritten as soon as Put returns.",
   note="sequential enumeration; the reader/writer interleaving variant of the design (E3) is not built - aliasing is a memory-lifetime matter that the sequential sequences with table recycling expose"),

 "C03": dict(cat="model_checking", engine="clustermc", ref="6 C03",
   technique="explicit-state BFS over membership, hand-over-step and client-operation events on real members (path replay, canonical state); reads from every member in every state, structural white-box oracle after stabilising a throw-away replay",
   text="All sequences up to depth 6 (quick) / 8 (thorough) of {Put / Delete of 3 keys (two share a partition) through the oldest or youngest member, join, routing push, one balancer pass on member i (one table per fragment), compaction, janitor, graceful leave (offered only while ReplicaCount distinct members hold every live key)} from 1-2 members up to 3, R in 1..2, 64 KiB and 128-byte tables. Join histories: in every state a Get of every key from every serving member returns the last acknowledged value or not-found; after stabilisation every live key is stored exactly once as a primary copy on the partition owner and keeps its backup copies. Every history: after stabilisation reads return the last acknowledged value, deleted keys are not-found and stored nowhere.",
   note="fault part: workloads of Put/Delete and one join run under C02's fault-schedule engine (R=2, one stop per run): at every command of the hand-over (routing push, length queries, each table move) the sender or the receiver stops before or after it; one known finding (all copies transiently on the member that stops, DESIGN 7.2) is attributed by a white-box signature. Membership comes from the fake discovery layer; the join/leave split of the oracle follows the statement (see DESIGN 12)"),
})
checks.update({
 "C14": dict(cat="model_checking", engine="clustermc", ref="6 C14",
   technique="explicit-state BFS over subscribe/unsubscribe/disconnect/publish sequences on real members (path replay, de-duplication on the implementation's own subscription tree) against a reference subscription model; plus stateless exploration of the interleavings of concurrent publishers and a subscription change (preemption bounded)",
   text="All sequences up to depth 5 (quick) / 6 (thorough) of SUBSCRIBE, PSUBSCRIBE, UNSUBSCRIBE and PUNSUBSCRIBE (one / all), disconnect on three subscriber connections spread over two members, and PUBLISH of a uniquely tagged message on channels {a,b} through either member, patterns {a*, b}: per connection the frames received match its subscriptions (none 0, one exactly 1, k overlapping 1..k), nothing foreign arrives, the PUBLISH reply equals the deliveries made; in every state PUBSUB CHANNELS [filter] / NUMSUB / NUMPAT on every member equal the model. Concurrent part: every schedule with at most 2/3 preemptions of publishers A (two messages via member0), B (via member1) and a thread that unsubscribes / subscribes a connection and then publishes: exact counts for stable subscribers, publication order of A, silence after an acknowledged UNSUBSCRIBE, reply = frames written.",
   note="subscriber connections are a stand-in for redcon's detached connection feeding the real background runner; in the concurrent part the (un)subscribe body runs on a scheduled thread through an accessor instead of on the runner goroutine; go-redis client-side reconnect/resubscribe is outside the model"),
})
checks.update({
 "C02": dict(cat="fault_enumeration", engine="faultmc", ref="6 C02",
   technique="deviation-bounded exhaustive exploration of fault schedules on real members: every decision point (gap between operations; every command delivered between members during an operation or a re-stabilisation) answers 'nothing fails' by default, and every vector with at most R-1 deviations (graceful leave, abrupt stop detected or latent, caller/callee stopping before/after a command) is executed on a fresh cluster and judged after re-stabilisation",
   text="For every configuration (N in 3..5, R in 2..3, read-repair on/off) and every workload (all sequences of length 1-3 over five Put/Delete operations on three keys owned by the coordinator, the youngest and a middle member, through the oldest or youngest live member): every fault schedule with at most R-1 stopped members. After detection and stabilisation to a fixpoint every key read on every survivor must be the last acknowledged value (or that of a later unacknowledged / under-replicated operation), acknowledged deletes read not-found, and Put, Delete, Put through survivors are visible on every survivor. One known finding (primary copy and replica co-located by the rebalancing after a first loss, R=3) is attributed by a white-box signature and reported as KNOWN-FINDING; every other loss is a VIOLATION.",
   note="network at command granularity (inline simulated transport), membership from the harness-driven layer; a member that stops while executing an operation never acknowledges it; the explanation predicate for the known finding is: at the instant of a later stop the key was held by fewer than min(R, live) members in a co-located layout and all of them have stopped"),
})
not_applicable = {}
all_ids = ["C%02d" % i for i in range(1, 21)]
for i in all_ids:
    if i not in checks:
        not_applicable[i] = "check not built yet in this round (planned in DESIGN.md section 6); not claimed until it runs"
m = {
 "version": 1,
 "setup_cmd": "./setup.sh",
 "hooks": {
   "guard": "verif",
   "enable": "accessor files carry //go:build verif and are injected, together with shim import rewrites and the harness packages, by `go build -tags verif -overlay build/overlay.json` (generated by tools/ovgen from /repo's working tree); /repo itself contains no hook code",
   "baseline_off_cmd": "cd /repo && GOFLAGS=-mod=mod GOPROXY=off GOSUMDB=off GOTOOLCHAIN=local go test -vet=off -count=1 -timeout 25m ./...",
   "source_commits": [],
   "add_only": True,
 },
 "engines": [
   {"name": "kvmc", "path": "harness/kvmc", "serves_properties": ["C11", "C12", "C20"], "kind_free_text": "explicit-state BFS over the real storage engine"},
   {"name": "schedmc", "path": "harness/schedmc", "serves_properties": ["C01", "C04", "C07", "C08", "C14"], "kind_free_text": "stateless schedule exploration (preemption bounded DFS) of real members under a cooperative scheduler"},
   {"name": "inputmc", "path": "harness/checks/c16.go", "serves_properties": ["C16", "C17"], "kind_free_text": "exhaustive enumeration of request argument vectors / byte frames / typed boundary values through the real handlers and clients, in crash-isolated workers with a watchdog"},
   {"name": "faultgrid", "path": "harness/checks", "serves_properties": ["C05", "C06", "C15", "C18"], "kind_free_text": "exhaustive enumeration of finite configuration / fault / layout grids, one fresh real cluster per case"},
   {"name": "faultmc", "path": "harness/checks/c02.go", "serves_properties": ["C02"], "kind_free_text": "deviation-bounded DFS over fault decision points (gaps and command deliveries) on a simulated cluster of real members, one fresh cluster per schedule"},
   {"name": "clustermc", "path": "harness/clustermc", "serves_properties": ["C03", "C04", "C09", "C10", "C12", "C13", "C14", "C19"], "kind_free_text": "explicit-state BFS over event sequences on a simulated cluster of real members (path replay)"},
 ],
 "checks": [],
 "not_applicable": [{"property_id": k, "reason": v} for k, v in sorted(not_applicable.items())],
 "notes": "All checks rebuild the harness binary from /repo's current working tree (./vcheck -> build.sh -> ovgen + go build -overlay). Fixed defects are listed in known_findings.json with status fixed.",
}
for i in all_ids:
    if i in checks:
        c = checks[i]
        m["checks"].append({
          "property_id": i, "quick_cmd": "./vcheck %s quick" % i, "thorough_cmd": "./vcheck %s thorough" % i,
          "evidence_file": "evidence/%s.json" % i, "replay_cmd_template": "./vcheck %s replay {path}" % i,
          "engine": c["engine"],
          "level_claimed": {"category": c["cat"], "text": c["text"], "design_ref": c["ref"]},
          "level_note": c["note"], "technique": c["technique"]})
json.dump(m, open(os.path.join(V, "MANIFEST.json"), "w"), indent=1)
print("MANIFEST.json: %d checks, %d not_applicable" % (len(m["checks"]), len(m["not_applicable"])))
