#!/bin/bash
# Build the conformance replayer: a plain module against the UNMODIFIED /repo (no tag, no overlay).
set -eu
cd "$(dirname "$0")"
. ../env.sh
cp "$REPO/go.sum" go.sum
go mod tidy >/dev/null 2>&1 || true
go build -o ../bin/conform .
