module conform

go 1.23.0

require (
	github.com/hashicorp/memberlist v0.5.3
	github.com/olric-data/olric v0.0.0
	github.com/redis/go-redis/v9 v9.7.3
)

require (
	github.com/RoaringBitmap/roaring v1.9.4 // indirect
	github.com/armon/go-metrics v0.4.1 // indirect
	github.com/bits-and-blooms/bitset v1.22.0 // indirect
	github.com/buraksezer/consistent v0.10.0 // indirect
	github.com/cespare/xxhash/v2 v2.3.0 // indirect
	github.com/dgryski/go-rendezvous v0.0.0-20200823014737-9f7001d12a5f // indirect
	github.com/google/btree v1.1.3 // indirect
	github.com/hashicorp/errwrap v1.1.0 // indirect
	github.com/hashicorp/go-immutable-radix v1.3.1 // indirect
	github.com/hashicorp/go-metrics v0.5.4 // indirect
	github.com/hashicorp/go-msgpack/v2 v2.1.3 // indirect
	github.com/hashicorp/go-multierror v1.1.1 // indirect
	github.com/hashicorp/go-sockaddr v1.0.7 // indirect
	github.com/hashicorp/golang-lru v1.0.2 // indirect
	github.com/hashicorp/logutils v1.0.0 // indirect
	github.com/miekg/dns v1.1.65 // indirect
	github.com/pkg/errors v0.9.1 // indirect
	github.com/sean-/seed v0.0.0-20170313163322-e2103e2c3529 // indirect
	github.com/tidwall/btree v1.7.0 // indirect
	github.com/tidwall/match v1.1.1 // indirect
	github.com/tidwall/redcon v1.6.2 // indirect
	github.com/vmihailenco/msgpack/v5 v5.4.1 // indirect
	github.com/vmihailenco/tagparser/v2 v2.0.0 // indirect
	golang.org/x/net v0.38.0 // indirect
	golang.org/x/sync v0.13.0 // indirect
	golang.org/x/sys v0.32.0 // indirect
	gopkg.in/yaml.v2 v2.4.0 // indirect
)

replace github.com/olric-data/olric => /repo
