// conform replays traces explored by the /verif engines against the UNMODIFIED olric stack:
// real olric.New + Start members on loopback TCP ports, real hashicorp/memberlist, real clock,
// public API only. It is what binds the harness stand-ins (simnet, manual start, shims) to the
// implementation: every replayed trace must produce, step by step, the observations the
// simulated run recorded.
//
//	conform replay <traces.jsonl>     -> one JSON summary on stdout
package main

import (
	"bufio"
	"bytes"
	"context"
	"encoding/json"
	"errors"
	"fmt"
	"io"
	"log"
	"net"
	"os"
	"os/exec"
	"os/signal"
	"sort"
	"strconv"
	"strings"
	"sync"
	"syscall"
	"time"

	"github.com/hashicorp/memberlist"
	olric "github.com/olric-data/olric"
	"github.com/olric-data/olric/config"
	"github.com/olric-data/olric/hasher"
	"github.com/redis/go-redis/v9"
)

// Step is one client operation with the observation recorded in the simulated run.
type Step struct {
	Op    string `json:"op"`  // put get del getput incr decr expire lock unlock lease
	Key   string `json:"key"` // key name
	Opt   string `json:"opt,omitempty"`
	Val   string `json:"val,omitempty"`
	Delta int    `json:"delta,omitempty"`
	Own   bool   `json:"own,omitempty"` // unlock/lease: present the token of the last successful lock (else a forged one)
	// expected observation
	Err  string `json:"err"`           // error class ("" = success)
	Out  string `json:"out,omitempty"` // returned value (get, getput) - lock tokens are replaced by <token>
	Nil  bool   `json:"nil,omitempty"`
	N    int64  `json:"n,omitempty"`
	HasN bool   `json:"has_n,omitempty"`
}

type Trace struct {
	ID      string   `json:"id"`
	Members int      `json:"members"`
	R       int      `json:"r"`
	Entry   string   `json:"entry"` // EO EN CC
	Steps   []Step   `json:"steps"`
	Ps      []PsStep `json:"ps,omitempty"` // pub/sub trace (C14)
	P       uint64    `json:"p,omitempty"`
	Mem     []MemStep `json:"mem,omitempty"` // membership trace (C13): the cluster starts with Members members
	Table0  [][2][]string `json:"table0,omitempty"`
}

// MemStep is one membership event with the routing table the simulated cluster (harness-driven
// membership layer) settles on afterwards: per partition the primary owners and the backup owners.
type MemStep struct {
	Op    string        `json:"op"`  // join leave crash
	Idx   int           `json:"idx"` // member index (address 127.0.0.1:41001+idx)
	Table [][2][]string `json:"table"`
}

// PsStep is one pub/sub step with the observations of the simulated run: the PUBLISH reply and the
// number of copies every connection received, and after every step the introspection answers of
// every member.
type PsStep struct {
	Op     string     `json:"op"` // sub psub unsub punsub unsuball punsuball disconnect publish
	Conn   int        `json:"conn"`
	Member int        `json:"member"` // publish: the member it goes through
	Name   string     `json:"name"`   // channel or pattern
	Count  int        `json:"count"`  // publish: reply
	Recv   []int      `json:"recv"`   // publish: copies received per connection
	Chans  [][]string `json:"chans"`  // per member: PUBSUB CHANNELS (sorted)
	NumSub [][]int64  `json:"numsub"` // per member: PUBSUB NUMSUB a b
	NumPat []int64    `json:"numpat"` // per member
}

type Summary struct {
	Traces        int      `json:"traces"`
	Validated     int      `json:"validated"`
	Disagreements []string `json:"disagreements"`
	Inconclusive  int      `json:"inconclusive"`
	Clusters      int      `json:"clusters_started"`
	WallS         float64  `json:"wall_s"`
}

func freePort() int {
	l, err := net.Listen("tcp", "127.0.0.1:0")
	if err != nil {
		panic(err)
	}
	defer l.Close()
	return l.Addr().(*net.TCPAddr).Port
}

type member struct {
	db   *olric.Olric
	name string
	emb  *olric.EmbeddedClient
}

type cluster struct {
	members []*member
	cc      *olric.ClusterClient
	parts   uint64
}

func startMember(r int, peers []string) (*member, string, error) {
	c := config.New("local")
	c.PartitionCount = 7
	c.ReplicaCount = r
	c.WriteQuorum, c.ReadQuorum, c.MemberCountQuorum = 1, 1, 1
	c.BindAddr = "127.0.0.1"
	c.BindPort = freePort()
	mc := memberlist.DefaultLocalConfig()
	mc.BindAddr = "127.0.0.1"
	mc.BindPort = freePort()
	mc.AdvertisePort = mc.BindPort
	mc.ProbeInterval = 100 * time.Millisecond
	mc.ProbeTimeout = 50 * time.Millisecond
	mc.GossipInterval = 20 * time.Millisecond
	mc.SuspicionMult = 1
	c.MemberlistConfig = mc
	c.Peers = peers
	c.Logger = log.New(io.Discard, "", 0)
	c.LogOutput = io.Discard
	c.LogVerbosity = 1
	c.RoutingTablePushInterval = 200 * time.Millisecond
	c.TriggerBalancerInterval = 100 * time.Millisecond
	started := make(chan struct{})
	c.Started = func() { close(started) }
	db, err := olric.New(c)
	if err != nil {
		return nil, "", err
	}
	errCh := make(chan error, 1)
	go func() { errCh <- db.Start() }()
	select {
	case <-started:
	case err := <-errCh:
		return nil, "", fmt.Errorf("start: %v", err)
	case <-time.After(30 * time.Second):
		return nil, "", errors.New("member did not start within 30s")
	}
	name := net.JoinHostPort(c.BindAddr, strconv.Itoa(c.BindPort))
	return &member{db: db, name: name, emb: db.NewEmbeddedClient()}, net.JoinHostPort("127.0.0.1", strconv.Itoa(mc.BindPort)), nil
}

func startCluster(n, r int) (*cluster, error) {
	cl := &cluster{parts: 7}
	var peers []string
	for i := 0; i < n; i++ {
		m, maddr, err := startMember(r, peers)
		if err != nil {
			return nil, err
		}
		cl.members = append(cl.members, m)
		peers = append(peers, maddr)
	}
	cc, err := olric.NewClusterClient([]string{cl.members[0].name}, olric.WithLogger(log.New(io.Discard, "", 0)))
	if err != nil {
		return nil, err
	}
	cl.cc = cc
	// wait until every member reports n members and the routing table lists live owners only,
	// with the configured number of backups, and stops changing
	deadline := time.Now().Add(30 * time.Second)
	stable := 0
	prev := ""
	for time.Now().Before(deadline) {
		ok := true
		for _, m := range cl.members {
			ms, err := m.emb.Members(context.Background())
			if err != nil || len(ms) != n {
				ok = false
			}
		}
		if ok {
			_ = cc.RefreshMetadata(context.Background())
			rt, err := cc.RoutingTable(context.Background())
			want := r
			if n < want {
				want = n
			}
			sig := ""
			if err != nil || uint64(len(rt)) != cl.parts {
				ok = false
			} else {
				for p := uint64(0); p < cl.parts; p++ {
					if len(rt[p].PrimaryOwners) != 1 || len(rt[p].ReplicaOwners) != want-1 {
						ok = false
					}
					sig += fmt.Sprint(rt[p].PrimaryOwners, rt[p].ReplicaOwners)
				}
			}
			if ok && sig == prev {
				stable++
			} else {
				stable = 0
			}
			prev = sig
			if stable >= 3 {
				return cl, nil
			}
		}
		time.Sleep(100 * time.Millisecond)
	}
	return nil, errors.New("cluster did not stabilise within 30s")
}

func (c *cluster) shutdown() {
	ctx, cancel := context.WithTimeout(context.Background(), 5*time.Second)
	defer cancel()
	_ = c.cc.Close(ctx)
	var wg sync.WaitGroup
	for _, m := range c.members {
		wg.Add(1)
		go func(m *member) { defer wg.Done(); _ = m.db.Shutdown(ctx) }(m)
	}
	wg.Wait()
}

var hsh = hasher.NewDefaultHasher()

// ownerOf computes the partition owner of (dmap,key) from the routing table a client sees.
func (c *cluster) ownerOf(dmap, key string) (string, error) {
	rt, err := c.cc.RoutingTable(context.Background())
	if err != nil {
		return "", err
	}
	part := hsh.Sum64([]byte(dmap+key)) % c.parts
	owners := rt[part].PrimaryOwners
	if len(owners) == 0 {
		return "", errors.New("no owner")
	}
	return owners[len(owners)-1], nil
}

func errClass(err error) string {
	if err == nil {
		return ""
	}
	switch {
	case errors.Is(err, olric.ErrKeyNotFound):
		return "notfound"
	case errors.Is(err, olric.ErrKeyFound):
		return "keyfound"
	case errors.Is(err, olric.ErrLockNotAcquired):
		return "locknotacquired"
	case errors.Is(err, olric.ErrNoSuchLock):
		return "nosuchlock"
	case errors.Is(err, olric.ErrWriteQuorum):
		return "writequorum"
	case errors.Is(err, olric.ErrReadQuorum):
		return "readquorum"
	}
	m := err.Error()
	// embedded clients return some internal errors unconverted: classify by message
	for _, p := range [][2]string{{"key not found", "notfound"}, {"key found", "keyfound"}, {"lock not acquired", "locknotacquired"}, {"no such lock", "nosuchlock"}} {
		if strings.Contains(m, p[0]) {
			return p[1]
		}
	}
	return "other:" + m
}

func putOpts(opt string) []olric.PutOption {
	var o []olric.PutOption
	for _, f := range strings.Split(opt, "+") {
		switch f {
		case "NX":
			o = append(o, olric.NX())
		case "XX":
			o = append(o, olric.XX())
		case "EX":
			o = append(o, olric.EX(time.Hour))
		case "PX":
			o = append(o, olric.PX(time.Hour))
		}
	}
	return o
}

type lockCtx interface {
	Unlock(ctx context.Context) error
	Lease(ctx context.Context, d time.Duration) error
}

// replay runs one trace on a fresh DMap of the cluster; returns "" or the first disagreement.
func (c *cluster) replay(t Trace, seq int) (string, error) {
	dname := fmt.Sprintf("conf%d", seq)
	key0 := t.Steps[0].Key
	owner, err := c.ownerOf(dname, key0)
	if err != nil {
		return "", err
	}
	var dm olric.DMap
	switch t.Entry {
	case "EO", "EN":
		var pick *member
		for _, m := range c.members {
			if (t.Entry == "EO") == (m.name == owner) {
				pick = m
				break
			}
		}
		if pick == nil {
			pick = c.members[0]
		}
		dm, err = pick.emb.NewDMap(dname)
	case "CC":
		dm, err = c.cc.NewDMap(dname)
	default:
		return "", fmt.Errorf("entry %q is not replayable on the real stack", t.Entry)
	}
	if err != nil {
		return "", err
	}
	ctx := context.Background()
	var lastLock lockCtx
	var tokens [][]byte
	for i, st := range t.Steps {
		var gotErr, gotOut string
		var gotNil bool
		var gotN int64
		switch st.Op {
		case "put":
			gotErr = errClass(dm.Put(ctx, st.Key, []byte(st.Val), putOpts(st.Opt)...))
		case "get":
			r, err := dm.Get(ctx, st.Key)
			gotErr = errClass(err)
			if err == nil {
				b, _ := r.Byte()
				gotOut = string(b)
			}
		case "del":
			_, err := dm.Delete(ctx, st.Key)
			gotErr = errClass(err)
		case "getput":
			r, err := dm.GetPut(ctx, st.Key, []byte(st.Val))
			gotErr = errClass(err)
			if err == nil {
				if r == nil {
					gotNil = true
				} else if b, berr := r.Byte(); berr != nil || b == nil {
					gotNil = true
				} else {
					gotOut = string(b)
				}
			}
		case "incr":
			n, err := dm.Incr(ctx, st.Key, st.Delta)
			gotErr, gotN = errClass(err), int64(n)
		case "decr":
			n, err := dm.Decr(ctx, st.Key, st.Delta)
			gotErr, gotN = errClass(err), int64(n)
		case "expire":
			gotErr = errClass(dm.Expire(ctx, st.Key, time.Hour))
		case "lock":
			lc, err := dm.Lock(ctx, st.Key, 0)
			gotErr = errClass(err)
			if err == nil {
				lastLock = lc
			}
		case "unlock", "lease":
			if st.Own && lastLock != nil {
				if st.Op == "unlock" {
					gotErr = errClass(lastLock.Unlock(ctx))
				} else {
					gotErr = errClass(lastLock.Lease(ctx, time.Hour))
				}
			} else {
				// a forged token cannot be presented through the public API: the exporter does
				// not emit such steps; skip defensively
				gotErr = "nosuchlock-unverifiable"
			}
		default:
			return "", fmt.Errorf("unknown op %q", st.Op)
		}
		_ = tokens
		if gotErr == "nosuchlock-unverifiable" {
			continue
		}
		for _, tok := range tokens {
			if gotOut == string(tok) {
				gotOut = "<token>"
			}
		}
		if len(gotOut) == 16 && !printable(gotOut) {
			gotOut = "<token>"
		}
		if strings.HasPrefix(gotErr, "other:") && strings.HasPrefix(st.Err, "other") {
			gotErr = st.Err
		}
		if gotErr != st.Err || gotOut != st.Out || gotNil != st.Nil || (st.HasN && gotN != st.N) {
			return fmt.Sprintf("trace %s step %d %s(%s %s): real stack err=%q out=%q nil=%v n=%d, simulated run err=%q out=%q nil=%v n=%d",
				t.ID, i, st.Op, st.Key, st.Opt, gotErr, gotOut, gotNil, gotN, st.Err, st.Out, st.Nil, st.N), nil
		}
	}
	_ = dm.Destroy(ctx)
	return "", nil
}

// ---- pub/sub ---------------------------------------------------------------------------------

// connMember: connections 0 and 1 sit on the first member, connection 2 on the last one (as in the
// simulated runs).
func (c *cluster) connMember(i int) *member {
	if i == 2 {
		return c.members[len(c.members)-1]
	}
	return c.members[0]
}

func (c *cluster) introspect(rcs []*redis.Client) (chans [][]string, numsub [][]int64, numpat []int64, err error) {
	ctx := context.Background()
	for _, rc := range rcs {
		cs, e := rc.PubSubChannels(ctx, "").Result()
		if e != nil {
			return nil, nil, nil, e
		}
		sort.Strings(cs)
		if cs == nil {
			cs = []string{}
		}
		chans = append(chans, cs)
		ns, e := rc.PubSubNumSub(ctx, "a", "b").Result()
		if e != nil {
			return nil, nil, nil, e
		}
		numsub = append(numsub, []int64{ns["a"], ns["b"]})
		np, e := rc.PubSubNumPat(ctx).Result()
		if e != nil {
			return nil, nil, nil, e
		}
		numpat = append(numpat, np)
	}
	return
}

func (c *cluster) replayPubSub(t Trace, seq int) (string, error) {
	ctx := context.Background()
	var rcs []*redis.Client
	for _, m := range c.members {
		rcs = append(rcs, redis.NewClient(&redis.Options{Addr: m.name, MaxRetries: -1}))
	}
	subs := make([]*redis.PubSub, 3)
	defer func() {
		for _, ps := range subs {
			if ps != nil {
				_ = ps.Close()
			}
		}
		// wait until the members have forgotten the connections of this trace
		for i := 0; i < 100; i++ {
			ch, _, np, err := c.introspect(rcs)
			quiet := err == nil
			for j := range ch {
				if len(ch[j]) != 0 || np[j] != 0 {
					quiet = false
				}
			}
			if quiet {
				break
			}
			time.Sleep(20 * time.Millisecond)
		}
		for _, rc := range rcs {
			_ = rc.Close()
		}
	}()
	ack := func(ps *redis.PubSub, n int) error {
		for n > 0 {
			m, err := ps.ReceiveTimeout(ctx, 2*time.Second)
			if err != nil {
				return err
			}
			if _, ok := m.(*redis.Subscription); ok {
				n--
			}
		}
		return nil
	}
	for si, st := range t.Ps {
		where := fmt.Sprintf("trace %s step %d (%s conn%d %q via member%d)", t.ID, si, st.Op, st.Conn, st.Name, st.Member)
		switch st.Op {
		case "sub", "psub", "unsub", "punsub", "unsuball", "punsuball":
			if subs[st.Conn] == nil {
				subs[st.Conn] = redis.NewClient(&redis.Options{Addr: c.connMember(st.Conn).name, MaxRetries: -1}).Subscribe(ctx)
			}
			ps := subs[st.Conn]
			var err error
			acks := 1
			switch st.Op {
			case "sub":
				err = ps.Subscribe(ctx, st.Name)
			case "psub":
				err = ps.PSubscribe(ctx, st.Name)
			case "unsub":
				err = ps.Unsubscribe(ctx, st.Name)
			case "punsub":
				err = ps.PUnsubscribe(ctx, st.Name)
			case "unsuball":
				err = ps.Unsubscribe(ctx)
				acks = 0
			case "punsuball":
				err = ps.PUnsubscribe(ctx)
				acks = 0
			}
			if err != nil {
				return "", fmt.Errorf("%s: %v", where, err)
			}
			if acks > 0 {
				if err := ack(ps, acks); err != nil {
					return "", fmt.Errorf("%s: no acknowledgement: %v", where, err)
				}
			} else {
				// unsubscribe-all answers one frame per subscription (or one with a null channel):
				// drain what arrives within a short window
				for {
					if _, err := ps.ReceiveTimeout(ctx, 150*time.Millisecond); err != nil {
						break
					}
				}
			}
		case "disconnect":
			if subs[st.Conn] != nil {
				_ = subs[st.Conn].Close()
				subs[st.Conn] = nil
			}
		case "publish":
			n, err := rcs[st.Member].Publish(ctx, st.Name, fmt.Sprintf("m%d-%d", seq, si)).Result()
			if err != nil {
				return "", fmt.Errorf("%s: %v", where, err)
			}
			if int(n) != st.Count {
				return fmt.Sprintf("%s: real PUBLISH returned %d, simulated run %d", where, n, st.Count), nil
			}
			got := make([]int, 3)
			var wg sync.WaitGroup
			for i, ps := range subs {
				if ps == nil {
					continue
				}
				wg.Add(1)
				go func(i int, ps *redis.PubSub) {
					defer wg.Done()
					for {
						m, err := ps.ReceiveTimeout(ctx, 200*time.Millisecond)
						if err != nil {
							return
						}
						if msg, ok := m.(*redis.Message); ok && msg.Payload == fmt.Sprintf("m%d-%d", seq, si) {
							got[i]++
						}
					}
				}(i, ps)
			}
			wg.Wait()
			for i := range got {
				want := 0
				if i < len(st.Recv) {
					want = st.Recv[i]
				}
				if got[i] != want {
					return fmt.Sprintf("%s: connection %d received %d copies on the real stack, %d in the simulated run", where, i, got[i], want), nil
				}
			}
		default:
			return "", fmt.Errorf("%s: unknown step", where)
		}
		// introspection after the step (a disconnect is noticed asynchronously: poll)
		var last string
		for try := 0; try < 50; try++ {
			ch, ns, np, err := c.introspect(rcs)
			if err != nil {
				return "", fmt.Errorf("%s: introspection: %v", where, err)
			}
			last = fmt.Sprint(ch, ns, np)
			if last == fmt.Sprint(st.Chans, st.NumSub, st.NumPat) {
				last = ""
				break
			}
			time.Sleep(20 * time.Millisecond)
		}
		if last != "" {
			return fmt.Sprintf("%s: real introspection (channels, numsub a b, numpat per member) %s, simulated run %s", where, last, fmt.Sprint(st.Chans, st.NumSub, st.NumPat)), nil
		}
	}
	return "", nil
}

func printable(s string) bool {
	for _, c := range []byte(s) {
		if c < 32 || c > 126 {
			return false
		}
	}
	return true
}

// ---- membership (child processes, real memberlist, real failure detector) ------------------------

const simBasePort, simMLBasePort = 41001, 42001

// runMember is the child mode: conform member <idx> <R> <P> <peer memberlist addr>...
func runMember(args []string) {
	idx, _ := strconv.Atoi(args[0])
	r, _ := strconv.Atoi(args[1])
	p, _ := strconv.Atoi(args[2])
	c := config.New("local")
	c.PartitionCount = uint64(p)
	c.ReplicaCount = r
	c.WriteQuorum, c.ReadQuorum, c.MemberCountQuorum = 1, 1, 1
	c.BindAddr = "127.0.0.1"
	c.BindPort = simBasePort + idx
	mc := memberlist.DefaultLocalConfig()
	mc.BindAddr = "127.0.0.1"
	mc.BindPort = simMLBasePort + idx
	mc.AdvertisePort = mc.BindPort
	mc.ProbeInterval = 100 * time.Millisecond
	mc.ProbeTimeout = 50 * time.Millisecond
	mc.GossipInterval = 20 * time.Millisecond
	mc.SuspicionMult = 1
	c.MemberlistConfig = mc
	c.Peers = args[3:]
	c.Logger = log.New(io.Discard, "", 0)
	c.LogOutput = io.Discard
	c.LogVerbosity = 1
	c.RoutingTablePushInterval = 200 * time.Millisecond
	c.TriggerBalancerInterval = 100 * time.Millisecond
	c.Started = func() { fmt.Println("STARTED"); os.Stdout.Sync() }
	db, err := olric.New(c)
	if err != nil {
		fmt.Println("ERROR", err)
		os.Exit(3)
	}
	sig := make(chan os.Signal, 1)
	signal.Notify(sig, syscall.SIGTERM)
	go func() {
		<-sig
		ctx, cancel := context.WithTimeout(context.Background(), 10*time.Second)
		defer cancel()
		_ = db.Shutdown(ctx)
	}()
	if err := db.Start(); err != nil {
		fmt.Println("ERROR", err)
		os.Exit(3)
	}
	os.Exit(0)
}

type child struct {
	cmd *exec.Cmd
	idx int
}

func portFree(p int) bool {
	l, err := net.Listen("tcp", fmt.Sprintf("127.0.0.1:%d", p))
	if err != nil {
		return false
	}
	l.Close()
	return true
}

func replayMembership(t Trace) (string, error) {
	live := map[int]*child{}
	defer func() {
		for _, c := range live {
			_ = c.cmd.Process.Kill()
			_, _ = c.cmd.Process.Wait()
		}
		time.Sleep(200 * time.Millisecond)
	}()
	start := func(idx int) error {
		for i := 0; i < 50 && !(portFree(simBasePort+idx) && portFree(simMLBasePort+idx)); i++ {
			time.Sleep(100 * time.Millisecond)
		}
		if !portFree(simBasePort+idx) || !portFree(simMLBasePort+idx) {
			return fmt.Errorf("port %d or %d is in use", simBasePort+idx, simMLBasePort+idx)
		}
		args := []string{"member", strconv.Itoa(idx), strconv.Itoa(t.R), strconv.Itoa(int(t.P))}
		var idxs []int
		for i := range live {
			idxs = append(idxs, i)
		}
		sort.Ints(idxs)
		for _, i := range idxs {
			args = append(args, fmt.Sprintf("127.0.0.1:%d", simMLBasePort+i))
		}
		cmd := exec.Command(os.Args[0], args...)
		out, err := cmd.StdoutPipe()
		if err != nil {
			return err
		}
		if err := cmd.Start(); err != nil {
			return err
		}
		okc := make(chan string, 1)
		go func() {
			sc := bufio.NewScanner(out)
			for sc.Scan() {
				okc <- sc.Text()
				break
			}
			io.Copy(io.Discard, out)
		}()
		select {
		case l := <-okc:
			if l != "STARTED" {
				_ = cmd.Process.Kill()
				return fmt.Errorf("member %d: %s", idx, l)
			}
		case <-time.After(30 * time.Second):
			_ = cmd.Process.Kill()
			return fmt.Errorf("member %d did not start within 30s", idx)
		}
		live[idx] = &child{cmd, idx}
		return nil
	}
	stop := func(idx int, sig syscall.Signal) error {
		c := live[idx]
		if c == nil {
			return fmt.Errorf("member %d is not running", idx)
		}
		delete(live, idx)
		_ = c.cmd.Process.Signal(sig)
		done := make(chan struct{})
		go func() { _, _ = c.cmd.Process.Wait(); close(done) }()
		select {
		case <-done:
		case <-time.After(20 * time.Second):
			_ = c.cmd.Process.Kill()
			return fmt.Errorf("member %d did not exit", idx)
		}
		return nil
	}
	// table reads CLUSTER.ROUTINGTABLE through every live member and the member count each one sees
	table := func() (string, error) {
		var first string
		for idx := range live {
			rc := redis.NewClient(&redis.Options{Addr: fmt.Sprintf("127.0.0.1:%d", simBasePort+idx), MaxRetries: -1, DialTimeout: time.Second, ReadTimeout: 2 * time.Second})
			res, err := rc.Do(context.Background(), "cluster.routingtable").Slice()
			var ms []interface{}
			if err == nil {
				ms, err = rc.Do(context.Background(), "cluster.members").Slice()
			}
			rc.Close()
			if err != nil {
				return "", err
			}
			if len(ms) != len(live) {
				return fmt.Sprintf("member %d sees %d members, %d are running", idx, len(ms), len(live)), nil
			}
			var tab [][2][]string
			for _, row := range res {
				r := row.([]interface{})
				var e [2][]string
				for k := 0; k < 2; k++ {
					e[k] = []string{}
					for _, o := range r[1+k].([]interface{}) {
						e[k] = append(e[k], o.(string))
					}
				}
				tab = append(tab, e)
			}
			s := fmt.Sprint(tab)
			if first == "" {
				first = s
			} else if s != first {
				return "members answer different tables", nil
			}
		}
		return first, nil
	}
	settle := func(where string, want [][2][]string) (string, error) {
		ws := fmt.Sprint(want)
		var last string
		var lastErr error
		deadline := time.Now().Add(25 * time.Second)
		okSince := time.Time{}
		for time.Now().Before(deadline) {
			got, err := table()
			last, lastErr = got, err
			if err == nil && got == ws {
				if okSince.IsZero() {
					okSince = time.Now()
				}
				if time.Since(okSince) > 1500*time.Millisecond { // and it stays that way
					return "", nil
				}
			} else {
				okSince = time.Time{}
			}
			time.Sleep(100 * time.Millisecond)
		}
		if lastErr != nil {
			return "", fmt.Errorf("%s: %v", where, lastErr)
		}
		return fmt.Sprintf("%s: the real cluster settles on %s, the simulated one on %s", where, last, ws), nil
	}
	for i := 0; i < t.Members; i++ {
		if err := start(i); err != nil {
			return "", err
		}
	}
	if d, err := settle(fmt.Sprintf("trace %s initial %d members", t.ID, t.Members), t.Table0); d != "" || err != nil {
		return d, err
	}
	for si, st := range t.Mem {
		where := fmt.Sprintf("trace %s step %d (%s member%d)", t.ID, si, st.Op, st.Idx)
		var err error
		switch st.Op {
		case "join", "rejoin":
			err = start(st.Idx)
		case "leave":
			err = stop(st.Idx, syscall.SIGTERM)
		case "crash":
			err = stop(st.Idx, syscall.SIGKILL)
		default:
			err = fmt.Errorf("unknown step %q", st.Op)
		}
		if err != nil {
			return "", fmt.Errorf("%s: %v", where, err)
		}
		if d, err := settle(where, st.Table); d != "" || err != nil {
			return d, err
		}
	}
	return "", nil
}

func main() {
	if len(os.Args) >= 5 && os.Args[1] == "member" {
		runMember(os.Args[2:])
		return
	}
	if len(os.Args) != 3 || os.Args[1] != "replay" {
		fmt.Fprintln(os.Stderr, "usage: conform replay <traces.jsonl>")
		os.Exit(2)
	}
	start := time.Now()
	f, err := os.Open(os.Args[2])
	if err != nil {
		fmt.Fprintln(os.Stderr, err)
		os.Exit(2)
	}
	defer f.Close()
	var traces []Trace
	sc := bufio.NewScanner(f)
	sc.Buffer(make([]byte, 1<<20), 1<<24)
	for sc.Scan() {
		if len(bytes.TrimSpace(sc.Bytes())) == 0 {
			continue
		}
		var t Trace
		if err := json.Unmarshal(sc.Bytes(), &t); err != nil {
			fmt.Fprintln(os.Stderr, "bad trace:", err)
			os.Exit(2)
		}
		if len(t.Steps) > 0 || len(t.Ps) > 0 || len(t.Mem) > 0 {
			traces = append(traces, t)
		}
	}
	// membership traces bring their own members (child processes under the simulated run's addresses)
	var memTraces []Trace
	{
		var rest []Trace
		for _, t := range traces {
			if len(t.Mem) > 0 {
				memTraces = append(memTraces, t)
			} else {
				rest = append(rest, t)
			}
		}
		traces = rest
	}
	// group by cluster shape so that one real cluster serves many traces
	type shape struct{ n, r int }
	groups := map[shape][]Trace{}
	for _, t := range traces {
		groups[shape{t.Members, t.R}] = append(groups[shape{t.Members, t.R}], t)
	}
	var shapes []shape
	for s := range groups {
		shapes = append(shapes, s)
	}
	sort.Slice(shapes, func(i, j int) bool { return shapes[i].n*10+shapes[i].r < shapes[j].n*10+shapes[j].r })
	sum := Summary{Traces: len(traces) + len(memTraces), Disagreements: []string{}}
	seq := 0
	for _, t := range memTraces {
		d, err := replayMembership(t)
		switch {
		case err != nil:
			sum.Inconclusive++
			fmt.Fprintf(os.Stderr, "conform: trace %s: %v\n", t.ID, err)
		case d != "":
			if len(sum.Disagreements) < 20 {
				sum.Disagreements = append(sum.Disagreements, d)
			}
		default:
			sum.Validated++
		}
	}
	for _, s := range shapes {
		cl, err := startCluster(s.n, s.r)
		if err != nil {
			// the real stack could not be brought up in time: inconclusive, never a verdict
			sum.Inconclusive += len(groups[s])
			fmt.Fprintf(os.Stderr, "conform: cluster N=%d R=%d: %v\n", s.n, s.r, err)
			continue
		}
		sum.Clusters++
		for _, t := range groups[s] {
			seq++
			var d string
			var err error
			if len(t.Ps) > 0 {
				d, err = cl.replayPubSub(t, seq)
			} else {
				d, err = cl.replay(t, seq)
			}
			switch {
			case err != nil:
				sum.Inconclusive++
				fmt.Fprintf(os.Stderr, "conform: trace %s: %v\n", t.ID, err)
			case d != "":
				if len(sum.Disagreements) < 20 {
					sum.Disagreements = append(sum.Disagreements, d)
				}
			default:
				sum.Validated++
			}
		}
		cl.shutdown()
	}
	sum.WallS = time.Since(start).Seconds()
	b, _ := json.Marshal(sum)
	fmt.Println(string(b))
	if len(sum.Disagreements) > 0 {
		os.Exit(1)
	}
}
