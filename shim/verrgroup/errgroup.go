// Package errgroup (shim): under the harness (sched.Virtual) Go runs f inline, in call order, in
// the caller's logical thread; otherwise it behaves like golang.org/x/sync/errgroup.
package errgroup

import (
	"context"

	"github.com/olric-data/olric/internal/verif/sched"
	real "golang.org/x/sync/errgroup"
)

type Group struct {
	g      real.Group
	rg     *real.Group
	cancel func(error)
	err    error
}

func (g *Group) r() *real.Group {
	if g.rg != nil {
		return g.rg
	}
	return &g.g
}

func WithContext(ctx context.Context) (*Group, context.Context) {
	if !sched.Virtual {
		rg, c := real.WithContext(ctx)
		return &Group{rg: rg}, c
	}
	c, cancel := context.WithCancelCause(ctx)
	return &Group{cancel: cancel}, c
}

func (g *Group) Go(f func() error) {
	if !sched.Virtual {
		g.r().Go(f)
		return
	}
	if err := f(); err != nil && g.err == nil {
		g.err = err
		if g.cancel != nil {
			g.cancel(err)
		}
	}
}

func (g *Group) TryGo(f func() error) bool {
	if !sched.Virtual {
		return g.r().TryGo(f)
	}
	g.Go(f)
	return true
}

func (g *Group) SetLimit(n int) {
	if !sched.Virtual {
		g.r().SetLimit(n)
	}
}

func (g *Group) Wait() error {
	if !sched.Virtual {
		return g.r().Wait()
	}
	if g.cancel != nil {
		g.cancel(g.err)
	}
	return g.err
}
