// Package context (shim): WithTimeout/WithDeadline are measured on the virtual clock when the
// harness runs in virtual time; everything else is the standard package.
package context

import (
	"context"
	"sync"
	"time"

	"github.com/olric-data/olric/internal/verif/sched"
)

type (
	Context         = context.Context
	CancelFunc      = context.CancelFunc
	CancelCauseFunc = context.CancelCauseFunc
)

var (
	Canceled         = context.Canceled
	DeadlineExceeded = context.DeadlineExceeded
)

func Background() Context                                  { return context.Background() }
func TODO() Context                                        { return context.TODO() }
func WithCancel(p Context) (Context, CancelFunc)           { return context.WithCancel(p) }
func WithCancelCause(p Context) (Context, CancelCauseFunc) { return context.WithCancelCause(p) }
func WithValue(p Context, k, v any) Context                { return context.WithValue(p, k, v) }
func WithoutCancel(p Context) Context                      { return context.WithoutCancel(p) }
func Cause(c Context) error                                { return context.Cause(c) }
func AfterFunc(c Context, f func()) (stop func() bool)     { return context.AfterFunc(c, f) }

type vctx struct {
	context.Context // parent (values)
	mu              sync.Mutex
	done            chan struct{}
	err             error
	deadline        time.Time
}

func (c *vctx) Done() <-chan struct{}       { return c.done }
func (c *vctx) Deadline() (time.Time, bool) { return c.deadline, true }
func (c *vctx) Err() error {
	c.mu.Lock()
	defer c.mu.Unlock()
	return c.err
}
func (c *vctx) cancel(err error) {
	c.mu.Lock()
	if c.err == nil {
		c.err = err
		close(c.done)
	}
	c.mu.Unlock()
}

func withVirtualDeadline(p Context, at int64) (Context, CancelFunc) {
	c := &vctx{Context: p, done: make(chan struct{}), deadline: time.Unix(0, at)}
	stop := context.AfterFunc(p, func() { c.cancel(p.Err()) })
	if at <= sched.PeekNS() {
		c.cancel(DeadlineExceeded)
	}
	// registered even when already expired: a following virtual sleep must not outlast it
	dl := sched.AddDeadline(at, func() { c.cancel(DeadlineExceeded) })
	return c, func() {
		stop()
		dl.Remove()
		c.cancel(Canceled)
	}
}

func WithTimeout(p Context, d time.Duration) (Context, CancelFunc) {
	if !sched.Virtual {
		return context.WithTimeout(p, d)
	}
	return withVirtualDeadline(p, sched.PeekNS()+int64(d))
}

func WithDeadline(p Context, t time.Time) (Context, CancelFunc) {
	if !sched.Virtual {
		return context.WithDeadline(p, t)
	}
	return withVirtualDeadline(p, t.UnixNano())
}

func WithTimeoutCause(p Context, d time.Duration, _ error) (Context, CancelFunc) {
	return WithTimeout(p, d)
}

func WithDeadlineCause(p Context, t time.Time, _ error) (Context, CancelFunc) {
	return WithDeadline(p, t)
}
