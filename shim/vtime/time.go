// Package time (shim): stands in for the standard "time". In virtual mode (sched.Virtual) Now,
// Since, Until read the harness clock; timers do not fire on their own: Reset/After/Sleep are
// virtual sleeps of the calling logical thread (see sched.SleepUntil). Otherwise: the real package.
package time

import (
	"time"

	"github.com/olric-data/olric/internal/verif/sched"
)

type (
	Duration   = time.Duration
	Time       = time.Time
	Month      = time.Month
	Weekday    = time.Weekday
	Location   = time.Location
	ParseError = time.ParseError
)

const (
	Layout      = time.Layout
	ANSIC       = time.ANSIC
	UnixDate    = time.UnixDate
	RubyDate    = time.RubyDate
	RFC822      = time.RFC822
	RFC822Z     = time.RFC822Z
	RFC850      = time.RFC850
	RFC1123     = time.RFC1123
	RFC1123Z    = time.RFC1123Z
	RFC3339     = time.RFC3339
	RFC3339Nano = time.RFC3339Nano
	Kitchen     = time.Kitchen
	Stamp       = time.Stamp
	StampMilli  = time.StampMilli
	StampMicro  = time.StampMicro
	StampNano   = time.StampNano
	DateTime    = time.DateTime
	DateOnly    = time.DateOnly
	TimeOnly    = time.TimeOnly

	Nanosecond  = time.Nanosecond
	Microsecond = time.Microsecond
	Millisecond = time.Millisecond
	Second      = time.Second
	Minute      = time.Minute
	Hour        = time.Hour

	January   = time.January
	February  = time.February
	March     = time.March
	April     = time.April
	May       = time.May
	June      = time.June
	July      = time.July
	August    = time.August
	September = time.September
	October   = time.October
	November  = time.November
	December  = time.December

	Sunday    = time.Sunday
	Monday    = time.Monday
	Tuesday   = time.Tuesday
	Wednesday = time.Wednesday
	Thursday  = time.Thursday
	Friday    = time.Friday
	Saturday  = time.Saturday
)

var (
	Local = time.Local
	UTC   = time.UTC
)

func ParseDuration(s string) (Duration, error)    { return time.ParseDuration(s) }
func FixedZone(name string, offset int) *Location { return time.FixedZone(name, offset) }
func LoadLocation(name string) (*Location, error) { return time.LoadLocation(name) }
func LoadLocationFromTZData(n string, d []byte) (*Location, error) {
	return time.LoadLocationFromTZData(n, d)
}
func Date(y int, m Month, d, h, mi, s, ns int, l *Location) Time {
	return time.Date(y, m, d, h, mi, s, ns, l)
}
func Parse(layout, value string) (Time, error) { return time.Parse(layout, value) }
func ParseInLocation(l, v string, loc *Location) (Time, error) {
	return time.ParseInLocation(l, v, loc)
}
func Unix(sec, nsec int64) Time { return time.Unix(sec, nsec) }
func UnixMicro(usec int64) Time { return time.UnixMicro(usec) }
func UnixMilli(msec int64) Time { return time.UnixMilli(msec) }

func Now() Time {
	if !sched.Virtual {
		return time.Now()
	}
	return time.Unix(0, sched.NowNS())
}

func Since(t Time) Duration { return Now().Sub(t) }
func Until(t Time) Duration { return t.Sub(Now()) }

type Timer struct {
	C    <-chan Time
	c    chan Time
	real *time.Timer
	at   int64
	f    func()
	live bool
}

func NewTimer(d Duration) *Timer {
	if !sched.Virtual {
		r := time.NewTimer(d)
		return &Timer{C: r.C, real: r}
	}
	c := make(chan Time, 1)
	return &Timer{C: c, c: c, at: sched.PeekNS() + int64(d), live: true}
}

// wait blocks the caller (virtually) until the timer's instant or one of the caller's context
// deadlines; delivers the tick if the instant has been reached.
func (t *Timer) wait() {
	if !sched.CanSleep() {
		return // background goroutine: the timer is inert, the caller's select keeps its other cases
	}
	// When a context deadline of the caller fired during this sleep the tick is withheld: a select
	// on both would otherwise be decided by Go's random choice; "deadline first" is one legal outcome.
	if sched.SleepUntil(t.at) > 0 {
		return
	}
	if t.live && sched.PeekNS() >= t.at {
		t.live = false
		select {
		case t.c <- time.Unix(0, sched.PeekNS()):
		default:
		}
	}
}

func (t *Timer) Stop() bool {
	if t.real != nil {
		return t.real.Stop()
	}
	was := t.live
	t.live = false
	return was
}

func (t *Timer) Reset(d Duration) bool {
	if t.real != nil {
		return t.real.Reset(d)
	}
	was := t.live
	select { // Go 1.23 semantics: no stale tick after Reset
	case <-t.c:
	default:
	}
	t.at = sched.PeekNS() + int64(d)
	t.live = true
	if t.f == nil {
		t.wait()
	}
	return was
}

func After(d Duration) <-chan Time {
	if !sched.Virtual {
		return time.After(d)
	}
	t := NewTimer(d)
	t.wait()
	return t.C
}

func Sleep(d Duration) {
	if !sched.Virtual {
		time.Sleep(d)
		return
	}
	sched.SleepUntil(sched.PeekNS() + int64(d))
}

func AfterFunc(d Duration, f func()) *Timer {
	if !sched.Virtual {
		return &Timer{real: time.AfterFunc(d, f)}
	}
	// inert in virtual mode: nothing on the explored paths uses it
	return &Timer{c: make(chan Time, 1), at: sched.PeekNS() + int64(d), f: f, live: true}
}

type Ticker struct {
	C    <-chan Time
	real *time.Ticker
}

func NewTicker(d Duration) *Ticker {
	if !sched.Virtual {
		r := time.NewTicker(d)
		return &Ticker{C: r.C, real: r}
	}
	return &Ticker{C: make(chan Time)} // inert: background pollers never fire under the harness
}

func (t *Ticker) Stop() {
	if t.real != nil {
		t.real.Stop()
	}
}

func (t *Ticker) Reset(d Duration) {
	if t.real != nil {
		t.real.Reset(d)
	}
}

func Tick(d Duration) <-chan Time { return NewTicker(d).C }
