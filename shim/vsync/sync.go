// Package sync (shim): stands in for the standard "sync" in the olric packages whose
// interleavings are explored. Mutex/RWMutex acquisitions are scheduling points of the cooperative
// scheduler when one is active; otherwise they are plain mutexes. Everything else is re-exported.
package sync

import (
	"sync"
	"sync/atomic"
	"unsafe"

	"github.com/olric-data/olric/internal/verif/sched"
)

type (
	WaitGroup = sync.WaitGroup
	Once      = sync.Once
	Pool      = sync.Pool
	Map       = sync.Map
	Cond      = sync.Cond
	Locker    = sync.Locker
)

func NewCond(l Locker) *Cond                                   { return sync.NewCond(l) }
func OnceFunc(f func()) func()                                 { return sync.OnceFunc(f) }
func OnceValue[T any](f func() T) func() T                     { return sync.OnceValue(f) }
func OnceValues[T1, T2 any](f func() (T1, T2)) func() (T1, T2) { return sync.OnceValues(f) }

type Mutex struct {
	mu   sync.Mutex
	held int32
}

func (m *Mutex) Lock() {
	if s := sched.Current(); s != nil {
		s.Point(sched.KLock, uintptr(unsafe.Pointer(m)), func() bool { return atomic.LoadInt32(&m.held) == 0 })
	}
	m.mu.Lock()
	atomic.StoreInt32(&m.held, 1)
}

func (m *Mutex) TryLock() bool {
	if m.mu.TryLock() {
		atomic.StoreInt32(&m.held, 1)
		return true
	}
	return false
}

func (m *Mutex) Unlock() {
	atomic.StoreInt32(&m.held, 0)
	m.mu.Unlock()
}

type RWMutex struct {
	mu sync.RWMutex
	w  int32
	r  int32
}

func (m *RWMutex) Lock() {
	if s := sched.Current(); s != nil {
		s.Point(sched.KLock, uintptr(unsafe.Pointer(m)), func() bool {
			return atomic.LoadInt32(&m.w) == 0 && atomic.LoadInt32(&m.r) == 0
		})
	}
	m.mu.Lock()
	atomic.StoreInt32(&m.w, 1)
}

func (m *RWMutex) TryLock() bool {
	if m.mu.TryLock() {
		atomic.StoreInt32(&m.w, 1)
		return true
	}
	return false
}

func (m *RWMutex) Unlock() {
	atomic.StoreInt32(&m.w, 0)
	m.mu.Unlock()
}

func (m *RWMutex) RLock() {
	if s := sched.Current(); s != nil {
		s.Point(sched.KRLock, uintptr(unsafe.Pointer(m)), func() bool { return atomic.LoadInt32(&m.w) == 0 })
	}
	m.mu.RLock()
	atomic.AddInt32(&m.r, 1)
}

func (m *RWMutex) TryRLock() bool {
	if m.mu.TryRLock() {
		atomic.AddInt32(&m.r, 1)
		return true
	}
	return false
}

func (m *RWMutex) RUnlock() {
	atomic.AddInt32(&m.r, -1)
	m.mu.RUnlock()
}

type rlocker RWMutex

func (r *rlocker) Lock()   { (*RWMutex)(r).RLock() }
func (r *rlocker) Unlock() { (*RWMutex)(r).RUnlock() }

func (m *RWMutex) RLocker() Locker { return (*rlocker)(m) }

// Spawn, when set by the harness, receives the goroutines that rewritten `go f(args)` statements
// would start (ovgen goRewrite): they become explicit transitions the explorer delivers.
var Spawn func(f func())

// Go starts f the way the original `go` statement did unless the harness took goroutines over.
func Go(f func()) {
	if s := Spawn; s != nil {
		s(f)
		return
	}
	go f()
}
