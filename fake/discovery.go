// Fake of internal/discovery/discovery.go (overlay replacement, same exported API): membership
// comes from the harness-driven world instead of hashicorp/memberlist. Bound to the real file by
// the conformance replay of membership scripts (see DESIGN.md, C13).
package discovery

import (
	"context"
	"errors"
	"net"
	"sort"
	"strconv"
	"sync"

	"github.com/hashicorp/memberlist"
	"github.com/olric-data/olric/config"
	"github.com/olric-data/olric/internal/stats"
	"github.com/olric-data/olric/internal/verif/world"
	"github.com/olric-data/olric/pkg/flog"
)

const eventChanCapacity = 256

// UptimeSeconds is the number of seconds since the server started.
var UptimeSeconds = stats.NewInt64Counter()

// ErrMemberNotFound indicates that the requested member could not be found in the member list.
var ErrMemberNotFound = errors.New("member not found")

type ClusterEvent struct {
	Event    memberlist.NodeEventType
	NodeName string
	NodeAddr net.IP
	NodePort uint16
	NodeMeta []byte
}

func (c *ClusterEvent) MemberAddr() string {
	port := strconv.Itoa(int(c.NodePort))
	return net.JoinHostPort(c.NodeAddr.String(), port)
}

type Discovery struct {
	log    *flog.Logger
	member *Member
	config *config.Config
	node   *world.Node

	clusterEventsMtx sync.RWMutex
	ClusterEvents    chan *ClusterEvent
	eventSubscribers []chan *ClusterEvent

	ctx    context.Context
	cancel context.CancelFunc
}

func New(log *flog.Logger, c *config.Config) *Discovery {
	member := NewMember(c)
	ctx, cancel := context.WithCancel(context.Background())
	return &Discovery{member: &member, config: c, log: log, ctx: ctx, cancel: cancel}
}

func (d *Discovery) Start() error {
	d.ClusterEvents = d.SubscribeNodeEvents()
	dl, err := d.newDelegate()
	if err != nil {
		return err
	}
	d.node = world.W.Register(d.member.Name, dl.meta)
	return nil
}

func (d *Discovery) Join() (int, error) { return world.W.JoinCluster(d.node, d.config.Peers) }

func (d *Discovery) Rejoin(peers []string) (int, error) { return world.W.JoinCluster(d.node, peers) }

func (d *Discovery) GetMembers() []Member {
	var members []Member
	if d.node == nil {
		return nil
	}
	for _, meta := range d.node.View {
		member, _ := NewMemberFromMetadata(meta)
		members = append(members, member)
	}
	sort.Slice(members, func(i int, j int) bool {
		if members[i].Birthdate == members[j].Birthdate {
			return members[i].Name < members[j].Name
		}
		return members[i].Birthdate < members[j].Birthdate
	})
	return members
}

func (d *Discovery) NumMembers() int {
	if d.node == nil {
		return 0
	}
	return len(d.node.View)
}

func (d *Discovery) FindMemberByName(name string) (Member, error) {
	for _, member := range d.GetMembers() {
		if member.Name == name {
			return member, nil
		}
	}
	return Member{}, ErrMemberNotFound
}

func (d *Discovery) FindMemberByID(id uint64) (Member, error) {
	for _, member := range d.GetMembers() {
		if member.ID == id {
			return member, nil
		}
	}
	return Member{}, ErrMemberNotFound
}

func (d *Discovery) GetCoordinator() Member {
	members := d.GetMembers()
	if len(members) == 0 {
		d.log.V(1).Printf("[ERROR] There is no member in memberlist")
		return Member{}
	}
	return members[0]
}

func (d *Discovery) IsCoordinator() bool { return d.GetCoordinator().ID == d.member.ID }

func (d *Discovery) LocalNode() *memberlist.Node {
	host, port, _ := net.SplitHostPort(d.member.Name)
	p, _ := strconv.Atoi(port)
	return &memberlist.Node{Name: d.member.Name, Addr: net.ParseIP(host), Port: uint16(p), Meta: d.node.Meta}
}

// VerifNode exposes the world node (harness only).
func (d *Discovery) VerifNode() *world.Node { return d.node }

func (d *Discovery) Shutdown() error {
	select {
	case <-d.ctx.Done():
		return nil
	default:
	}
	d.cancel()
	if d.node != nil && d.node.Alive {
		world.W.LeaveGracefully(d.node)
	}
	return nil
}
