package discovery

type delegate struct {
	meta []byte
}

func (d *Discovery) newDelegate() (delegate, error) {
	data, err := d.member.Encode()
	if err != nil {
		return delegate{}, err
	}
	return delegate{meta: data}, nil
}
