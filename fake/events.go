package discovery

import (
	"net"
	"strconv"

	"github.com/hashicorp/memberlist"
	"github.com/olric-data/olric/internal/verif/world"
)

func ToClusterEvent(e memberlist.NodeEvent) *ClusterEvent {
	return &ClusterEvent{
		Event:    e.Event,
		NodeName: e.Node.Name,
		NodeAddr: e.Node.Addr,
		NodePort: e.Node.Port,
		NodeMeta: e.Node.Meta,
	}
}

// VerifConvert turns a world event into the ClusterEvent the routing table consumes.
func VerifConvert(e *world.Event) *ClusterEvent {
	host, port, _ := net.SplitHostPort(e.Name)
	p, _ := strconv.Atoi(port)
	t := memberlist.NodeJoin
	switch e.Type {
	case world.Leave:
		t = memberlist.NodeLeave
	case world.Update:
		t = memberlist.NodeUpdate
	}
	return &ClusterEvent{Event: t, NodeName: e.Name, NodeAddr: net.ParseIP(host), NodePort: uint16(p), NodeMeta: e.Meta}
}

func (d *Discovery) SubscribeNodeEvents() chan *ClusterEvent {
	d.clusterEventsMtx.Lock()
	defer d.clusterEventsMtx.Unlock()

	ch := make(chan *ClusterEvent, eventChanCapacity)
	d.eventSubscribers = append(d.eventSubscribers, ch)
	return ch
}
