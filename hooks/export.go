//go:build verif

package olric

import (
	"context"
	"encoding/hex"
	"sort"

	"github.com/olric-data/olric/internal/cluster/balancer"
	"github.com/olric-data/olric/internal/cluster/routingtable"
	"github.com/olric-data/olric/internal/dmap"
	"github.com/olric-data/olric/internal/pubsub"
	"github.com/olric-data/olric/internal/server"
	"github.com/tidwall/redcon"
)

// VerifStartManual does what Start does minus the TCP listener and the background goroutines:
// join the (fake) membership and begin the routing-table start sequence. The start sequence is
// finished by VerifRT().VerifStartFinish() once the member-count quorum holds (Start waits for it).
func (db *Olric) VerifStartManual() error {
	if err := db.rt.Join(); err != nil {
		return err
	}
	return db.rt.VerifStartBegin()
}

func (db *Olric) VerifServe(conn redcon.Conn, cmd redcon.Command) { db.server.VerifServe(conn, cmd) }
func (db *Olric) VerifRT() *routingtable.RoutingTable             { return db.rt }
func (db *Olric) VerifDMap() *dmap.Service                        { return db.dmap }
func (db *Olric) VerifBalancer() *balancer.Balancer               { return db.balancer }
func (db *Olric) VerifPubSub() *pubsub.Service                    { return db.pubsub }
func (db *Olric) VerifServer() *server.Server                     { return db.server }
func (db *Olric) VerifName() string                               { return db.name }

// VerifResetConns drops the pooled redis clients so that they are re-created from the (updated)
// client configuration.
func (cl *ClusterClient) VerifResetConns() {
	var addrs []string
	for addr := range cl.client.Addresses() {
		addrs = append(addrs, addr)
	}
	sort.Strings(addrs)
	for _, addr := range addrs {
		_ = cl.client.Close(addr)
	}
	for _, addr := range addrs {
		cl.client.Get(addr)
	}
}

// VerifLockToken extracts the token of a lock context (embedded or cluster).
func VerifLockToken(lc LockContext) []byte {
	switch l := lc.(type) {
	case *EmbeddedLockContext:
		return append([]byte{}, l.token...)
	case *ClusterLockContext:
		b, _ := hex.DecodeString(l.token)
		return b
	}
	return nil
}

// VerifNewLockContext builds a lock context carrying an arbitrary token (stale / forged tokens).
func VerifNewLockContext(d DMap, key string, token []byte) LockContext {
	switch dm := d.(type) {
	case *EmbeddedDMap:
		return &EmbeddedLockContext{key: key, token: token, dm: dm}
	case *ClusterDMap:
		return &ClusterLockContext{key: key, token: hex.EncodeToString(token), dm: dm}
	}
	return nil
}

// VerifResponseEmpty reports whether a GetResponse carries no entry.
func VerifResponseEmpty(r *GetResponse) bool { return r == nil || r.entry == nil }

// VerifEmbeddedScan is EmbeddedDMap.Scan with the cluster client supplied by the caller.
// EmbeddedDMap.Scan builds its own ClusterClient with the default (TCP) dialer, which has nothing to
// connect to in the simulated cluster; everything after that line - the cluster iterator and the
// embedded iterator that scans locally owned partitions in process - is the same code.
func VerifEmbeddedScan(ctx context.Context, dm *EmbeddedDMap, cc *ClusterClient, options ...ScanOption) (Iterator, error) {
	cdm, err := cc.NewDMap(dm.name)
	if err != nil {
		return nil, err
	}
	i, err := cdm.Scan(ctx, options...)
	if err != nil {
		return nil, err
	}
	e := &EmbeddedIterator{
		client: dm.client,
		dm:     dm.dm,
	}
	clusterIterator := i.(*ClusterIterator)
	clusterIterator.scanner = e.scanOnOwners
	e.clusterIterator = clusterIterator
	return e, nil
}
