//go:build verif

package server

import (
	"sort"

	"github.com/tidwall/redcon"
)

// VerifServe dispatches one command exactly as the redcon server callback does.
func (s *Server) VerifServe(conn redcon.Conn, cmd redcon.Command) { s.mux.ServeRESP(conn, cmd) }

// VerifCommands lists the registered command names.
func (s *Server) VerifCommands() []string {
	var out []string
	for name := range s.mux.handlers {
		out = append(out, name)
	}
	sort.Strings(out)
	return out
}
