//go:build verif

package kvstore

import (
	"sort"

	"github.com/olric-data/olric/internal/kvstore/table"
)

// VerifTables returns a snapshot of every table in list order (verification accessor).
func (k *KVStore) VerifTables() []table.VerifDump {
	out := make([]table.VerifDump, 0, len(k.tables))
	for _, t := range k.tables {
		out = append(out, t.VerifDump())
	}
	return out
}

// VerifRegistered returns the coefficients registered in tablesByCoefficient, sorted.
func (k *KVStore) VerifRegistered() []uint64 {
	var out []uint64
	for cf := range k.tablesByCoefficient {
		out = append(out, cf)
	}
	sort.Slice(out, func(i, j int) bool { return out[i] < out[j] })
	return out
}

func (k *KVStore) VerifTableSize() uint64   { return k.tableSize }
func (k *KVStore) VerifCoefficient() uint64 { return k.coefficient }
