//go:build verif

package table

import "sort"

// VerifDump is a read-only snapshot of a table's bookkeeping (verification accessor).
type VerifDump struct {
	Coefficient uint64
	State       State
	Offset      uint64
	Allocated   uint64
	Inuse       uint64
	Garbage     uint64
	RecycledAt  int64
	HKeys       [][2]uint64 // (hkey, offset) sorted by hkey
	OffsetIndex []uint64
	Memory      []byte // alias of the table memory up to Offset: callers must not write
}

func (t *Table) VerifDump() VerifDump {
	d := VerifDump{Coefficient: t.coefficient, State: t.state, Offset: t.offset, Allocated: t.allocated,
		Inuse: t.inuse, Garbage: t.garbage, RecycledAt: t.recycledAt}
	for h, o := range t.hkeys {
		d.HKeys = append(d.HKeys, [2]uint64{h, o})
	}
	sort.Slice(d.HKeys, func(i, j int) bool { return d.HKeys[i][0] < d.HKeys[j][0] })
	d.OffsetIndex = t.offsetIndex.ToArray()
	d.Memory = t.memory[:t.offset]
	return d
}
