//go:build verif

package routingtable

import (
	"sort"

	"github.com/olric-data/olric/internal/discovery"
)

// VerifStartBegin is the part of Start before the wait for the member-count quorum.
func (r *RoutingTable) VerifStartBegin() error {
	select {
	case <-r.joined:
	default:
		return ErrNotJoinedYet
	}
	r.setNumMembers()
	return nil
}

// VerifStartFinish is the part of Start after the quorum wait (minus the push ticker goroutine).
// It returns ErrClusterQuorum while the quorum does not hold, like one poll of that wait.
func (r *RoutingTable) VerifStartFinish() error {
	if err := r.CheckMemberCountQuorum(); err != nil {
		return err
	}
	r.Members().Lock()
	r.Members().Add(r.this)
	r.Members().Unlock()

	r.consistent.Add(r.this)

	if r.discovery.IsCoordinator() {
		return r.bootstrapCoordinator()
	}
	return nil
}

// VerifClusterEvent is one iteration of listenClusterEvents.
func (r *RoutingTable) VerifClusterEvent(e *discovery.ClusterEvent) {
	r.processClusterEvent(e)
	r.updateRouting()
}

// VerifQuiesce waits for goroutines spawned by handlers (runCallbacks, event publishers).
func (r *RoutingTable) VerifQuiesce() { r.wg.Wait() }

type VerifRoute struct {
	Owners  []discovery.Member
	Backups []discovery.Member
}

// VerifTable returns the routing table as this member currently applies it (partition owners).
func (r *RoutingTable) VerifTable() map[uint64]VerifRoute {
	out := map[uint64]VerifRoute{}
	for partID := uint64(0); partID < r.config.PartitionCount; partID++ {
		out[partID] = VerifRoute{
			Owners:  append([]discovery.Member{}, r.primary.PartitionByID(partID).Owners()...),
			Backups: append([]discovery.Member{}, r.backup.PartitionByID(partID).Owners()...),
		}
	}
	return out
}

// VerifMembers returns the members registered in the routing table's member set, by name.
func (r *RoutingTable) VerifMembers() []discovery.Member {
	var out []discovery.Member
	r.Members().RLock()
	r.Members().Range(func(_ uint64, m discovery.Member) bool { out = append(out, m); return true })
	r.Members().RUnlock()
	sort.Slice(out, func(i, j int) bool { return out[i].Name < out[j].Name })
	return out
}

func (r *RoutingTable) VerifLoad() map[string]float64 { return r.consistent.LoadDistribution() }
func (r *RoutingTable) VerifAverageLoad() float64     { return r.consistent.AverageLoad() }
