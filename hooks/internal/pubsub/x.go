//go:build verif

package pubsub

import (
	"fmt"
	"sort"
	"strings"

	"github.com/tidwall/redcon"
)

// VerifDump renders the subscription state of this member: the entries of the ordered tree and
// the entry set of every connection (connections numbered in the order they first subscribed).
func (s *Service) VerifDump() string {
	ps := s.pubsub
	ps.mu.RLock()
	defer ps.mu.RUnlock()
	if !ps.initd {
		return "-"
	}
	var tree []string
	ps.chans.Ascend(nil, func(item interface{}) bool {
		e := item.(*pubSubEntry)
		tree = append(tree, fmt.Sprintf("%v/%s/%d", e.pattern, e.channel, e.sconn.id))
		return true
	})
	var conns []string
	for _, sc := range ps.conns {
		var es []string
		for e := range sc.entries {
			es = append(es, fmt.Sprintf("%v/%s", e.pattern, e.channel))
		}
		sort.Strings(es)
		conns = append(conns, fmt.Sprintf("%d%v", sc.id, es))
	}
	sort.Strings(conns)
	return strings.Join(tree, ",") + "|" + strings.Join(conns, ",")
}

// VerifSubscribe / VerifUnsubscribe run, on the calling goroutine, exactly what the background
// runner of a subscriber connection runs for (P)SUBSCRIBE and (P)UNSUBSCRIBE.
func (s *Service) VerifSubscribe(conn redcon.Conn, pattern bool, channel string) {
	if pattern {
		s.pubsub.Psubscribe(conn, channel)
	} else {
		s.pubsub.Subscribe(conn, channel)
	}
}

func (s *Service) VerifUnsubscribe(conn redcon.Conn, pattern, all bool, channel string) {
	s.pubsub.unsubscribe(conn, pattern, all, channel)
}
