//go:build verif

package dmap

import (
	"sort"
	"strings"

	"github.com/olric-data/olric/internal/cluster/partitions"
	"github.com/olric-data/olric/internal/kvstore"
	"github.com/olric-data/olric/internal/kvstore/table"
	"github.com/olric-data/olric/pkg/storage"
	"github.com/vmihailenco/msgpack/v5"
)

// VerifJanitor runs one pass of the empty-fragment janitor.
func (s *Service) VerifJanitor() { s.deleteEmptyFragments() }

// VerifCompactPartition runs the compaction worker body for one partition (until done).
func (s *Service) VerifCompactPartition(partID uint64) { s.doCompaction(partID) }

// VerifCompactStep runs one Compaction() step on every fragment of the partition, as
// callCompactionOnFragment does for one iteration.
func (s *Service) VerifCompactStep(partID uint64) {
	for _, part := range []*partitions.Partition{s.primary.PartitionByID(partID), s.backup.PartitionByID(partID)} {
		part.Map().Range(func(name, tmp interface{}) bool {
			if !strings.HasPrefix(name.(string), "dmap.") {
				return true
			}
			f := tmp.(*fragment)
			f.Lock()
			_, _ = f.Compaction()
			f.Unlock()
			return true
		})
	}
}

// VerifEvictOnce is the body of evictKeys for a chosen (instead of random) partition.
func (s *Service) VerifEvictOnce(partID uint64) {
	part := s.primary.PartitionByID(partID)
	part.Map().Range(func(name, tmp interface{}) bool {
		f := tmp.(*fragment)
		s.scanFragmentForEviction(partID, name.(string), f)
		return false
	})
}

// VerifEvictAll calls scanFragmentForEviction for every fragment of the partition.
func (s *Service) VerifEvictAll(partID uint64) {
	part := s.primary.PartitionByID(partID)
	part.Map().Range(func(name, tmp interface{}) bool {
		f := tmp.(*fragment)
		s.scanFragmentForEviction(partID, name.(string), f)
		return true
	})
}

type VerifEntry struct {
	Corrupt    bool
	HKey       uint64
	Key        string
	Value      []byte
	TTL        int64
	Timestamp  int64
	LastAccess int64
}

type VerifFragment struct {
	PartID  uint64
	Kind    string // primary | backup
	Name    string // fragment name as stored in the partition map (with the dmap. prefix)
	Entries []VerifEntry
	Stats   storage.Stats
	Tables  []table.VerifDump
}

// VerifFragments dumps every fragment of every partition of this member without touching
// last-access stamps (entries are decoded from raw table memory).
func (s *Service) VerifFragments() []VerifFragment {
	var out []VerifFragment
	for _, kind := range []partitions.Kind{partitions.PRIMARY, partitions.BACKUP} {
		parts := s.primary
		kname := "primary"
		if kind == partitions.BACKUP {
			parts = s.backup
			kname = "backup"
		}
		for partID := uint64(0); partID < s.config.PartitionCount; partID++ {
			part := parts.PartitionByID(partID)
			var names []string
			frs := map[string]*fragment{}
			part.Map().Range(func(name, tmp interface{}) bool {
				if f, ok := tmp.(*fragment); ok {
					names = append(names, name.(string))
					frs[name.(string)] = f
				}
				return true
			})
			sort.Strings(names)
			for _, name := range names {
				f := frs[name]
				vf := VerifFragment{PartID: partID, Kind: kname, Name: name, Stats: f.storage.Stats()}
				if kv, ok := f.storage.(*kvstore.KVStore); ok {
					vf.Tables = kv.VerifTables()
					seen := map[uint64]bool{}
					for ti := len(vf.Tables) - 1; ti >= 0; ti-- {
						t := vf.Tables[ti]
						for _, h := range t.HKeys {
							if seen[h[0]] {
								continue
							}
							seen[h[0]] = true
							ve, ok := verifDecode(kv, h[0], t.Memory[h[1]:])
							if !ok {
								// the stored bytes do not decode (corrupt entry): report it instead of panicking
								ve = VerifEntry{HKey: h[0], Key: "<corrupt entry>", Corrupt: true}
							}
							vf.Entries = append(vf.Entries, ve)
						}
					}
					sort.Slice(vf.Entries, func(i, j int) bool { return vf.Entries[i].Key < vf.Entries[j].Key })
				}
				out = append(out, vf)
			}
		}
	}
	return out
}

func verifDecode(kv *kvstore.KVStore, hkey uint64, mem []byte) (ve VerifEntry, ok bool) {
	defer func() {
		if recover() != nil {
			ok = false
		}
	}()
	e := kv.NewEntry()
	e.Decode(mem)
	return VerifEntry{HKey: hkey, Key: e.Key(), Value: append([]byte{}, e.Value()...),
		TTL: e.TTL(), Timestamp: e.Timestamp(), LastAccess: e.LastAccess()}, true
}

// VerifInject stores an entry directly into a fragment of this member (building conflicting
// copies for the last-write-wins checks).
func (s *Service) VerifInject(kind partitions.Kind, dmap string, hkey uint64, e storage.Entry) error {
	dm, err := s.getOrCreateDMap(dmap)
	if err != nil {
		return err
	}
	part := dm.getPartitionByHKey(hkey, kind)
	f, err := dm.loadOrCreateFragment(part)
	if err != nil {
		return err
	}
	f.Lock()
	defer f.Unlock()
	return f.storage.Put(hkey, e)
}

// VerifDMapNames lists the DMaps this member's service knows.
func (s *Service) VerifDMapNames() []string {
	s.RLock()
	defer s.RUnlock()
	var out []string
	for n := range s.dmaps {
		out = append(out, n)
	}
	sort.Strings(out)
	return out
}

// VerifPackFragment builds the payload of an internal.dmap.movefragment command.
func VerifPackFragment(partID uint64, kind partitions.Kind, name string, payload []byte) ([]byte, error) {
	return msgpack.Marshal(&fragmentPack{PartID: partID, Kind: kind, Name: name, Payload: payload})
}

// VerifRemove deletes an entry directly from a fragment of this member.
func (s *Service) VerifRemove(kind partitions.Kind, dmap string, hkey uint64) {
	dm, err := s.getOrCreateDMap(dmap)
	if err != nil {
		return
	}
	part := dm.getPartitionByHKey(hkey, kind)
	f, err := dm.loadFragment(part)
	if err != nil {
		return
	}
	f.Lock()
	defer f.Unlock()
	_ = f.storage.Delete(hkey)
}
