// vcheck runs one registered property check: vcheck <ID> <quick|thorough>
package main

import (
	"fmt"
	"os"
	"strings"
	"time"

	_ "github.com/olric-data/olric/internal/verif/checks"
	"github.com/olric-data/olric/internal/verif/core"
	"github.com/olric-data/olric/internal/verif/sched"
	"github.com/olric-data/olric/internal/verif/schedmc"
)

func main() {
	sched.AdoptSolo()
	if len(os.Args) >= 2 && os.Args[1] == "--worker" {
		sched.Virtual = true
		core.WorkerMain()
		return
	}
	if len(os.Args) >= 4 && os.Args[1] == "racepass" {
		// free-running pass for the race detector (binary built with -race): every program of the
		// given schedmc families is run <rounds> times with its threads as plain goroutines
		sched.Virtual = true
		rounds := 1
		fmt.Sscan(os.Args[3], &rounds)
		progs, runs, stuck := 0, 0, 0
		for _, fam := range strings.Split(os.Args[2], ",") {
			gen := schedmc.Families[fam]
			if gen == nil {
				fmt.Fprintln(os.Stderr, "unknown family", fam)
				os.Exit(2)
			}
			for _, p := range gen("quick") {
				progs++
				for r := 0; r < rounds; r++ {
					runs++
					if !schedmc.RunFree(p, 20*time.Second) {
						stuck++
						fmt.Printf("racepass: %s did not finish within 20s\n", p.Name)
						break
					}
				}
			}
		}
		fmt.Printf("racepass: families=%s programs=%d runs=%d unfinished=%d\n", os.Args[2], progs, runs, stuck)
		return
	}
	if len(os.Args) < 3 {
		fmt.Fprintln(os.Stderr, "usage: vcheck <ID> <quick|thorough>")
		os.Exit(2)
	}
	id, tier := os.Args[1], os.Args[2]
	ch, ok := core.Registry[id]
	if !ok {
		fmt.Fprintln(os.Stderr, "unknown check", id)
		os.Exit(2)
	}
	sched.Virtual = true
	if tier == "replay" {
		if len(os.Args) < 4 {
			fmt.Fprintln(os.Stderr, "usage: vcheck <ID> replay <file>")
			os.Exit(2)
		}
		os.Exit(core.RunReplay(id, os.Args[3]))
	}
	c := core.NewCtx(id, tier, ch.Level)
	ch.Run(c)
	os.Exit(c.Finish())
}
