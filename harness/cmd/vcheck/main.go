// vcheck runs one registered property check: vcheck <ID> <quick|thorough>
package main

import (
	"bytes"
	"fmt"
	"io"
	"os"
	"os/exec"
	"path/filepath"
	"regexp"
	"strings"
	"time"

	_ "github.com/olric-data/olric/internal/verif/checks"
	"github.com/olric-data/olric/internal/verif/core"
	"github.com/olric-data/olric/internal/verif/sched"
	"github.com/olric-data/olric/internal/verif/schedmc"
)

func main() {
	sched.AdoptSolo()
	if len(os.Args) >= 2 && os.Args[1] == "--worker" {
		sched.Virtual = true
		core.WorkerMain()
		return
	}
	if len(os.Args) >= 4 && os.Args[1] == "racepass" {
		// free-running pass for the race detector (binary built with -race): every program of the
		// given schedmc families is run <rounds> times with its threads as plain goroutines
		sched.Virtual = true
		rounds := 1
		fmt.Sscan(os.Args[3], &rounds)
		progs, runs, stuck := 0, 0, 0
		for _, fam := range strings.Split(os.Args[2], ",") {
			gen := schedmc.Families[fam]
			if gen == nil {
				fmt.Fprintln(os.Stderr, "unknown family", fam)
				os.Exit(2)
			}
			for _, p := range gen("quick") {
				progs++
				for r := 0; r < rounds; r++ {
					runs++
					if !schedmc.RunFree(p, 20*time.Second) {
						stuck++
						fmt.Printf("racepass: %s did not finish within 20s\n", p.Name)
						break
					}
				}
			}
		}
		fmt.Printf("racepass: families=%s programs=%d runs=%d unfinished=%d\n", os.Args[2], progs, runs, stuck)
		return
	}
	if len(os.Args) < 3 {
		fmt.Fprintln(os.Stderr, "usage: vcheck <ID> <quick|thorough>")
		os.Exit(2)
	}
	id, tier := os.Args[1], os.Args[2]
	ch, ok := core.Registry[id]
	if !ok {
		fmt.Fprintln(os.Stderr, "unknown check", id)
		os.Exit(2)
	}
	if os.Getenv("VCHECK_SUPERVISED") == "" && tier != "replay" {
		os.Exit(supervise(id))
	}
	sched.Virtual = true
	if tier == "replay" {
		if len(os.Args) < 4 {
			fmt.Fprintln(os.Stderr, "usage: vcheck <ID> replay <file>")
			os.Exit(2)
		}
		os.Exit(core.RunReplay(id, os.Args[3]))
	}
	c := core.NewCtx(id, tier, ch.Level)
	ch.Run(c)
	os.Exit(c.Finish())
}


// supervise runs the check in a child process. Executions of olric code normally happen in crash-
// isolated workers, but a few run in the check's main process (initial states, trace export for the
// conformance replay); olric starts goroutines of its own (the pub/sub runner of a detached
// connection), and a panic there cannot be recovered: it takes the whole process down - exactly what
// it would do to a member. When the child dies of a Go panic / fatal error whose panicking goroutine
// was executing olric code (first frame of the module that is not harness code), that is reported as
// a violation of the property being checked, with the trace as the replay artefact; any other death
// stays a harness failure (exit 2, no verdict).
func supervise(id string) int {
	cmd := exec.Command(os.Args[0], os.Args[1:]...)
	cmd.Env = append(os.Environ(), "VCHECK_SUPERVISED=1")
	cmd.Stdin, cmd.Stdout = os.Stdin, os.Stdout
	var tail bytes.Buffer
	cmd.Stderr = io.MultiWriter(os.Stderr, &limited{b: &tail, max: 1 << 20})
	err := cmd.Run()
	if err == nil {
		return 0
	}
	code := 2
	if ee, ok := err.(*exec.ExitError); ok {
		code = ee.ExitCode()
	}
	if code == 0 || code == 1 {
		return code
	}
	site := olricPanicSite(tail.String())
	if site == "" {
		return 2
	}
	dir := filepath.Join(core.VerifDir, "replay")
	os.MkdirAll(dir, 0o755)
	file := filepath.Join(dir, id+"-member-crash.txt")
	os.WriteFile(file, []byte("check "+id+" "+strings.Join(os.Args[2:], " ")+": the process executing olric members died; panicking goroutine in olric code at "+site+"\n\n"+tail.String()), 0o644)
	fmt.Printf("VIOLATION property=%s replay=%s\n  key=%s/member-process-crash/%s\n  olric code panicked in a goroutine of its own (unrecoverable: a member process dies): %s\n", id, file, id, site, site)
	return 1
}

type limited struct {
	b   *bytes.Buffer
	max int
}

func (l *limited) Write(p []byte) (int, error) {
	if l.b.Len() < l.max {
		l.b.Write(p)
	}
	return len(p), nil
}

var frameRe = regexp.MustCompile(`(?m)^(github\.com/olric-data/olric[^\s(]*)`)

// olricPanicSite returns the function of the first olric-module frame of the panicking goroutine if
// that frame is olric code proper (not the harness, which lives under internal/verif), else "".
func olricPanicSite(stderr string) string {
	i := strings.Index(stderr, "panic: ")
	if j := strings.Index(stderr, "fatal error: "); j >= 0 && (i < 0 || j < i) {
		i = j
	}
	if i < 0 {
		return ""
	}
	rest := stderr[i:]
	g := strings.Index(rest, "\ngoroutine ")
	if g < 0 {
		return ""
	}
	block := rest[g+1:]
	if e := strings.Index(block, "\n\n"); e >= 0 {
		block = block[:e]
	}
	m := frameRe.FindString(block)
	if m == "" || strings.Contains(m, "/internal/verif/") {
		return ""
	}
	return m
}
