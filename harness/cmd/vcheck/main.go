// vcheck runs one registered property check: vcheck <ID> <quick|thorough>
package main

import (
	"fmt"
	"os"

	_ "github.com/olric-data/olric/internal/verif/checks"
	"github.com/olric-data/olric/internal/verif/core"
	"github.com/olric-data/olric/internal/verif/sched"
)

func main() {
	sched.AdoptSolo()
	if len(os.Args) >= 2 && os.Args[1] == "--worker" {
		sched.Virtual = true
		core.WorkerMain()
		return
	}
	if len(os.Args) < 3 {
		fmt.Fprintln(os.Stderr, "usage: vcheck <ID> <quick|thorough>")
		os.Exit(2)
	}
	id, tier := os.Args[1], os.Args[2]
	ch, ok := core.Registry[id]
	if !ok {
		fmt.Fprintln(os.Stderr, "unknown check", id)
		os.Exit(2)
	}
	sched.Virtual = true
	if tier == "replay" {
		if len(os.Args) < 4 {
			fmt.Fprintln(os.Stderr, "usage: vcheck <ID> replay <file>")
			os.Exit(2)
		}
		os.Exit(core.RunReplay(id, os.Args[3]))
	}
	c := core.NewCtx(id, tier, ch.Level)
	ch.Run(c)
	os.Exit(c.Finish())
}
