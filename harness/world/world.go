// Package world is the membership oracle behind the fake discovery layer: who is alive, what
// each member believes (its view), and the per-member queues of undelivered membership events.
// The harness advances it with explicit transitions; nothing here runs on its own.
package world

import (
	"fmt"
	"sort"
)

type EventType int

const (
	Join EventType = iota
	Leave
	Update
)

func (t EventType) String() string { return [...]string{"join", "leave", "update"}[t] }

type Event struct {
	Type EventType
	Name string
	Meta []byte
}

type Node struct {
	Name  string
	Meta  []byte
	Alive bool
	View  map[string][]byte // name -> metadata of the incarnation this member believes in
	Queue []*Event
	seq   int
}

type World struct {
	Nodes map[string]*Node // latest incarnation per name
	seq   int
}

// W is the world of the cluster currently being built / explored (one cluster per process at a time).
var W = New()

func New() *World { return &World{Nodes: map[string]*Node{}} }

func Reset() { W = New() }

// Register creates (or re-creates, for a restart under the same name) a node. It is alone in its
// own view until it joins.
func (w *World) Register(name string, meta []byte) *Node {
	w.seq++
	n := &Node{Name: name, Meta: meta, Alive: true, View: map[string][]byte{name: meta}, seq: w.seq}
	w.Nodes[name] = n
	return n
}

func (w *World) LiveNames() []string {
	var out []string
	for n, x := range w.Nodes {
		if x.Alive {
			out = append(out, n)
		}
	}
	sort.Strings(out)
	return out
}

// JoinCluster merges n with the cluster reachable through peers (first live peer). Every member
// in the contact's view learns about n (NodeJoin, or NodeUpdate when it still believed in an older
// incarnation with the same name); n learns about every one of them (NodeJoin each).
func (w *World) JoinCluster(n *Node, peers []string) (int, error) {
	if len(peers) == 0 {
		return 0, nil
	}
	var contact *Node
	for _, p := range peers {
		if c, ok := w.Nodes[p]; ok && c.Alive && c != n {
			contact = c
			break
		}
	}
	if contact == nil {
		return 0, fmt.Errorf("world: no reachable peer among %v", peers)
	}
	names := make([]string, 0, len(contact.View))
	for name := range contact.View {
		names = append(names, name)
	}
	sort.Strings(names)
	for _, name := range names {
		if name == n.Name {
			continue
		}
		x, ok := w.Nodes[name]
		if !ok || !x.Alive {
			// the contact still believes in a dead member: the joiner inherits that belief
			n.View[name] = contact.View[name]
			n.Queue = append(n.Queue, &Event{Join, name, contact.View[name]})
			continue
		}
		if old, had := x.View[n.Name]; had {
			if string(old) != string(n.Meta) {
				x.Queue = append(x.Queue, &Event{Update, n.Name, n.Meta})
			}
		} else {
			x.Queue = append(x.Queue, &Event{Join, n.Name, n.Meta})
		}
		x.View[n.Name] = n.Meta
		n.View[name] = x.Meta
		n.Queue = append(n.Queue, &Event{Join, name, x.Meta})
	}
	return 1, nil
}

// LeaveGracefully: n announces its departure; every live member drops it and gets NodeLeave.
func (w *World) LeaveGracefully(n *Node) {
	n.Alive = false
	for _, name := range w.LiveNames() {
		x := w.Nodes[name]
		if meta, ok := x.View[n.Name]; ok && x != n {
			delete(x.View, n.Name)
			x.Queue = append(x.Queue, &Event{Leave, n.Name, meta})
		}
	}
}

// Crash: n stops without a word; views are untouched until Detect.
func (w *World) Crash(n *Node) { n.Alive = false }

// Detect: observer's failure detector declares victim dead.
func (w *World) Detect(observer *Node, victim string) bool {
	meta, ok := observer.View[victim]
	if !ok || victim == observer.Name {
		return false
	}
	if v, ok := w.Nodes[victim]; ok && v.Alive && string(v.Meta) == string(meta) {
		return false // it is alive: nothing to detect
	}
	delete(observer.View, victim)
	observer.Queue = append(observer.Queue, &Event{Leave, victim, meta})
	return true
}

func (n *Node) Pop() *Event {
	if len(n.Queue) == 0 {
		return nil
	}
	e := n.Queue[0]
	n.Queue = n.Queue[1:]
	return e
}
