package simcluster

import (
	"context"
	"encoding/hex"
	"errors"
	"fmt"
	"strconv"
	"strings"
	"time"

	olric "github.com/olric-data/olric"
	"github.com/olric-data/olric/config"
	"github.com/olric-data/olric/internal/dmap"
	"github.com/olric-data/olric/internal/kvstore/entry"
	"github.com/olric-data/olric/internal/protocol"
	"github.com/olric-data/olric/internal/verif/simnet"
	"github.com/redis/go-redis/v9"
)

// Res is the normalised outcome of one client operation.
type Res struct {
	Err   string // "" | notfound | keyfound | writequorum | readquorum | clusterquorum | locknotacquired | nosuchlock | keytoolarge | entrytoolarge | refused | other:<msg>
	Val   []byte // value bytes (Get, GetPut old value); nil when absent
	Nil   bool   // GetPut: no previous value
	N     int64  // Incr/Decr/Delete result
	F     float64
	TTL   int64 // Get: absolute expiry in ms (0 = none)
	TS    int64 // Get: write timestamp
	Token []byte
}

func (r Res) String() string {
	if r.Err != "" {
		return "err:" + r.Err
	}
	if r.Nil {
		return "nil"
	}
	if r.Val != nil {
		return fmt.Sprintf("%q", r.Val)
	}
	if r.Token != nil {
		return "tok"
	}
	if r.F != 0 {
		return strconv.FormatFloat(r.F, 'g', -1, 64)
	}
	return fmt.Sprintf("%d", r.N)
}

type PutOpt struct {
	NX, XX bool
	EX, PX time.Duration // relative
	EXAT   time.Duration // absolute, since the epoch
	PXAT   time.Duration
}

func (o PutOpt) String() string {
	var s []string
	if o.NX {
		s = append(s, "NX")
	}
	if o.XX {
		s = append(s, "XX")
	}
	if o.EX != 0 {
		s = append(s, "EX")
	}
	if o.PX != 0 {
		s = append(s, "PX")
	}
	if o.EXAT != 0 {
		s = append(s, "EXAT")
	}
	if o.PXAT != 0 {
		s = append(s, "PXAT")
	}
	return strings.Join(s, "+")
}

// KV is the uniform client surface used by the engines for every entry point.
type KV interface {
	Label() string
	Put(key string, val []byte, o PutOpt) Res
	Get(key string) Res
	Del(keys ...string) Res
	Incr(key string, d int) Res
	Decr(key string, d int) Res
	IncrByFloat(key string, d float64) Res
	GetPut(key string, val []byte) Res
	Expire(key string, d time.Duration) Res
	Lock(key string, timeout, deadline time.Duration) Res
	Unlock(key string, token []byte) Res
	Lease(key string, token []byte, d time.Duration) Res
	Destroy() Res
}

// ErrClass normalises an error from any client path.
func ErrClass(err error) string {
	if err == nil {
		return ""
	}
	is := func(targets ...error) bool {
		for _, t := range targets {
			if errors.Is(err, t) {
				return true
			}
		}
		return false
	}
	switch {
	case is(olric.ErrKeyNotFound, dmap.ErrKeyNotFound, dmap.ErrDMapNotFound):
		return "notfound"
	case is(olric.ErrKeyFound, dmap.ErrKeyFound):
		return "keyfound"
	case is(olric.ErrWriteQuorum, dmap.ErrWriteQuorum):
		return "writequorum"
	case is(olric.ErrReadQuorum, dmap.ErrReadQuorum):
		return "readquorum"
	case is(olric.ErrClusterQuorum):
		return "clusterquorum"
	case is(olric.ErrLockNotAcquired, dmap.ErrLockNotAcquired):
		return "locknotacquired"
	case is(olric.ErrNoSuchLock, dmap.ErrNoSuchLock):
		return "nosuchlock"
	case is(olric.ErrKeyTooLarge, dmap.ErrKeyTooLarge):
		return "keytoolarge"
	case is(olric.ErrEntryTooLarge, dmap.ErrEntryTooLarge):
		return "entrytoolarge"
	case is(olric.ErrConnRefused, simnet.ErrRefused):
		return "refused"
	case is(redis.Nil):
		return "nil"
	}
	msg := err.Error()
	// raw replies carry the protocol prefix
	if perr := protocol.ConvertError(err); perr != err && perr != nil {
		if c := ErrClass(perr); !strings.HasPrefix(c, "other:") {
			return c
		}
	}
	switch {
	case strings.Contains(msg, "cluster quorum"):
		return "clusterquorum"
	case strings.Contains(msg, "connection refused") || strings.Contains(msg, "EOF") || strings.Contains(msg, "closed pipe"):
		return "refused"
	}
	return "other:" + msg
}

// ---- olric.DMap based (embedded and cluster clients) ---------------------------------------------

type dmKV struct {
	label string
	dm    olric.DMap
}

func WrapDMap(label string, dm olric.DMap) KV { return &dmKV{label, dm} }

func (k *dmKV) Label() string { return k.label }

var bg = context.Background()

func putOptions(o PutOpt) []olric.PutOption {
	var opts []olric.PutOption
	if o.NX {
		opts = append(opts, olric.NX())
	}
	if o.XX {
		opts = append(opts, olric.XX())
	}
	if o.EX != 0 {
		opts = append(opts, olric.EX(o.EX))
	}
	if o.PX != 0 {
		opts = append(opts, olric.PX(o.PX))
	}
	if o.EXAT != 0 {
		opts = append(opts, olric.EXAT(o.EXAT))
	}
	if o.PXAT != 0 {
		opts = append(opts, olric.PXAT(o.PXAT))
	}
	return opts
}

func (k *dmKV) Put(key string, val []byte, o PutOpt) Res {
	return Res{Err: ErrClass(k.dm.Put(bg, key, val, putOptions(o)...))}
}

func fromGet(r *olric.GetResponse, err error) Res {
	if err != nil {
		return Res{Err: ErrClass(err)}
	}
	if r == nil {
		return Res{Nil: true}
	}
	b, err := r.Byte()
	if err != nil {
		return Res{Err: "other:" + err.Error()}
	}
	return Res{Val: append([]byte{}, b...), TTL: r.TTL(), TS: r.Timestamp()}
}

func (k *dmKV) Get(key string) Res { return fromGet(k.dm.Get(bg, key)) }
func (k *dmKV) Del(keys ...string) Res {
	n, err := k.dm.Delete(bg, keys...)
	return Res{N: int64(n), Err: ErrClass(err)}
}
func (k *dmKV) Incr(key string, d int) Res {
	n, err := k.dm.Incr(bg, key, d)
	return Res{N: int64(n), Err: ErrClass(err)}
}
func (k *dmKV) Decr(key string, d int) Res {
	n, err := k.dm.Decr(bg, key, d)
	return Res{N: int64(n), Err: ErrClass(err)}
}
func (k *dmKV) IncrByFloat(key string, d float64) Res {
	f, err := k.dm.IncrByFloat(bg, key, d)
	return Res{F: f, Err: ErrClass(err)}
}
func (k *dmKV) GetPut(key string, val []byte) Res {
	r, err := k.dm.GetPut(bg, key, val)
	if err == nil && (r == nil || VerifIsNilResponse(r)) {
		return Res{Nil: true}
	}
	return fromGet(r, err)
}
func (k *dmKV) Expire(key string, d time.Duration) Res {
	return Res{Err: ErrClass(k.dm.Expire(bg, key, d))}
}
func (k *dmKV) Lock(key string, timeout, deadline time.Duration) Res {
	var lc olric.LockContext
	var err error
	if timeout == 0 {
		lc, err = k.dm.Lock(bg, key, deadline)
	} else {
		lc, err = k.dm.LockWithTimeout(bg, key, timeout, deadline)
	}
	if err != nil {
		return Res{Err: ErrClass(err)}
	}
	return Res{Token: olric.VerifLockToken(lc)}
}
func (k *dmKV) Unlock(key string, token []byte) Res {
	return Res{Err: ErrClass(olric.VerifNewLockContext(k.dm, key, token).Unlock(bg))}
}
func (k *dmKV) Lease(key string, token []byte, d time.Duration) Res {
	return Res{Err: ErrClass(olric.VerifNewLockContext(k.dm, key, token).Lease(bg, d))}
}
func (k *dmKV) Destroy() Res { return Res{Err: ErrClass(k.dm.Destroy(bg))} }

// VerifIsNilResponse reports whether a GetResponse wraps no entry.
func VerifIsNilResponse(r *olric.GetResponse) bool { return olric.VerifResponseEmpty(r) }

// ---- raw RESP -------------------------------------------------------------------------------------

type rawKV struct {
	label string
	rc    *redis.Client
	dmap  string
	// alt: every duration is spelled in the OTHER unit the protocol offers (EX seconds instead of PX
	// milliseconds and vice versa, EXAT / PXAT, DM.EXPIRE instead of DM.PEXPIRE, DM.LOCKLEASE instead
	// of DM.PLOCKLEASE): the same request, the second spelling
	alt bool
}

// RawClientAlt is RawClient with the alternative spelling of every duration.
func (c *Cluster) RawClientAlt(to *Member, dmapName string) KV {
	k := c.RawClient(to, dmapName).(*rawKV)
	k.alt = true
	k.label = "rawalt>" + to.Name
	return k
}

// RawClient opens a plain RESP connection (go-redis over simnet) to one member.
func (c *Cluster) RawClient(to *Member, dmapName string) KV {
	c.ccSeq++
	cc := config.NewClient()
	cc.Dialer = simnet.DialerFor(fmt.Sprintf("raw:%d", c.ccSeq))
	_ = cc.Sanitize()
	opt := cc.RedisOptions()
	opt.Addr = to.Name
	opt.MaxRetries = -1
	return &rawKV{label: "raw>" + to.Name, rc: redis.NewClient(opt), dmap: dmapName}
}

func (k *rawKV) Label() string { return k.label }

func (k *rawKV) Put(key string, val []byte, o PutOpt) Res {
	cmd := protocol.NewPut(k.dmap, key, val)
	if k.alt {
		o.EX, o.PX = o.PX, o.EX
		o.EXAT, o.PXAT = o.PXAT, o.EXAT
	}
	switch {
	case o.EX != 0:
		cmd.SetEX(o.EX.Seconds())
	case o.PX != 0:
		cmd.SetPX(o.PX.Milliseconds())
	case o.EXAT != 0:
		cmd.SetEXAT(o.EXAT.Seconds())
	case o.PXAT != 0:
		cmd.SetPXAT(o.PXAT.Milliseconds())
	}
	if o.NX {
		cmd.SetNX()
	}
	if o.XX {
		cmd.SetXX()
	}
	c := cmd.Command(bg)
	if err := k.rc.Process(bg, c); err != nil {
		return Res{Err: ErrClass(err)}
	}
	return Res{Err: ErrClass(c.Err())}
}

func (k *rawKV) Get(key string) Res {
	c := protocol.NewGet(k.dmap, key).SetRaw().Command(bg)
	if err := k.rc.Process(bg, c); err != nil {
		return Res{Err: ErrClass(err)}
	}
	b, err := c.Bytes()
	if err != nil {
		return Res{Err: ErrClass(err)}
	}
	e := entry.New()
	e.Decode(b)
	return Res{Val: append([]byte{}, e.Value()...), TTL: e.TTL(), TS: e.Timestamp()}
}

func (k *rawKV) Del(keys ...string) Res {
	c := protocol.NewDel(k.dmap, keys...).Command(bg)
	if err := k.rc.Process(bg, c); err != nil {
		return Res{Err: ErrClass(err)}
	}
	n, err := c.Result()
	return Res{N: n, Err: ErrClass(err)}
}

func (k *rawKV) Incr(key string, d int) Res {
	c := protocol.NewIncr(k.dmap, key, d).Command(bg)
	if err := k.rc.Process(bg, c); err != nil {
		return Res{Err: ErrClass(err)}
	}
	n, err := c.Result()
	return Res{N: n, Err: ErrClass(err)}
}

func (k *rawKV) Decr(key string, d int) Res {
	c := protocol.NewDecr(k.dmap, key, d).Command(bg)
	if err := k.rc.Process(bg, c); err != nil {
		return Res{Err: ErrClass(err)}
	}
	n, err := c.Result()
	return Res{N: n, Err: ErrClass(err)}
}

func (k *rawKV) IncrByFloat(key string, d float64) Res {
	c := protocol.NewIncrByFloat(k.dmap, key, d).Command(bg)
	if err := k.rc.Process(bg, c); err != nil {
		return Res{Err: ErrClass(err)}
	}
	f, err := c.Result()
	return Res{F: f, Err: ErrClass(err)}
}

func (k *rawKV) GetPut(key string, val []byte) Res {
	c := protocol.NewGetPut(k.dmap, key, val).Command(bg)
	err := k.rc.Process(bg, c)
	if err == redis.Nil {
		return Res{Nil: true}
	}
	if err != nil {
		return Res{Err: ErrClass(err)}
	}
	b, err := c.Bytes()
	if err == redis.Nil {
		return Res{Nil: true}
	}
	if err != nil {
		return Res{Err: ErrClass(err)}
	}
	return Res{Val: b}
}

func (k *rawKV) Expire(key string, d time.Duration) Res {
	c := protocol.NewPExpire(k.dmap, key, d).Command(bg)
	if k.alt {
		c = protocol.NewExpire(k.dmap, key, d).Command(bg)
	}
	if err := k.rc.Process(bg, c); err != nil {
		return Res{Err: ErrClass(err)}
	}
	return Res{Err: ErrClass(c.Err())}
}

func (k *rawKV) Lock(key string, timeout, deadline time.Duration) Res {
	cmd := protocol.NewLock(k.dmap, key, deadline.Seconds())
	if timeout != 0 && !k.alt {
		cmd.SetPX(timeout.Milliseconds())
	}
	if timeout != 0 && k.alt {
		cmd.SetEX(timeout.Seconds())
	}
	c := cmd.Command(bg)
	if err := k.rc.Process(bg, c); err != nil {
		return Res{Err: ErrClass(err)}
	}
	s, err := c.Result()
	if err != nil {
		return Res{Err: ErrClass(err)}
	}
	tok, _ := hex.DecodeString(s)
	return Res{Token: tok}
}

func (k *rawKV) Unlock(key string, token []byte) Res {
	c := protocol.NewUnlock(k.dmap, key, hex.EncodeToString(token)).Command(bg)
	if err := k.rc.Process(bg, c); err != nil {
		return Res{Err: ErrClass(err)}
	}
	return Res{Err: ErrClass(c.Err())}
}

func (k *rawKV) Lease(key string, token []byte, d time.Duration) Res {
	c := protocol.NewPLockLease(k.dmap, key, hex.EncodeToString(token), d.Milliseconds()).Command(bg)
	if k.alt {
		c = protocol.NewLockLease(k.dmap, key, hex.EncodeToString(token), d.Seconds()).Command(bg)
	}
	if err := k.rc.Process(bg, c); err != nil {
		return Res{Err: ErrClass(err)}
	}
	return Res{Err: ErrClass(c.Err())}
}

func (k *rawKV) Destroy() Res {
	c := protocol.NewDestroy(k.dmap).Command(bg)
	if err := k.rc.Process(bg, c); err != nil {
		return Res{Err: ErrClass(err)}
	}
	return Res{Err: ErrClass(c.Err())}
}

// ---- entry points -----------------------------------------------------------------------------------

// Entry kinds: EO embedded client on the owner of the key, EN / EN2 embedded client on the first /
// second non-owner, CC cluster client, RO / RN raw RESP connection to the owner / a non-owner.
var EntryKinds = []string{"EO", "EN", "EN2", "CC", "RO", "RN"}

// Entry opens a client of the given kind for operations on (dmapName,key).
func (c *Cluster) Entry(kind, dmapName, key string) (KV, error) {
	view := c.Live()[0]
	owner := c.Owner(view, dmapName, key)
	var non []*Member
	for _, m := range c.Live() {
		if m != owner {
			non = append(non, m)
		}
	}
	pick := func(i int) *Member {
		if len(non) == 0 {
			return owner
		}
		return non[i%len(non)]
	}
	switch kind {
	case "EO", "EN", "EN2":
		m := owner
		if kind == "EN" {
			m = pick(0)
		} else if kind == "EN2" {
			m = pick(1)
		}
		dm, err := m.Emb.NewDMap(dmapName)
		if err != nil {
			return nil, err
		}
		return WrapDMap(kind+"@"+m.Name, dm), nil
	case "CC":
		cl, err := c.ClusterClient(pick(0))
		if err != nil {
			return nil, err
		}
		dm, err := cl.NewDMap(dmapName)
		if err != nil {
			return nil, err
		}
		return WrapDMap("CC", dm), nil
	case "RO":
		return c.RawClient(owner, dmapName), nil
	case "RN":
		return c.RawClient(pick(0), dmapName), nil
	case "RNx":
		return c.RawClientAlt(pick(0), dmapName), nil
	case "ROx":
		return c.RawClientAlt(owner, dmapName), nil
	case "PL":
		cl, err := c.ClusterClient(pick(0))
		if err != nil {
			return nil, err
		}
		dm, err := cl.NewDMap(dmapName)
		if err != nil {
			return nil, err
		}
		return WrapPipeline(dm), nil
	}
	return nil, fmt.Errorf("unknown entry kind %q", kind)
}

var _ = strconv.Itoa

// ---- pipeline (cluster client) -------------------------------------------------------------------

type plKV struct {
	dmKV
}

// WrapPipeline issues every supported operation through a pipeline of a ClusterDMap. The operation
// is not alone in its pipeline: commands of every value-carrying kind on two decoy keys are queued
// before and after it (other values, other lengths), so that whatever a queued command keeps from
// the call that queued it - a buffer, an option struct - has been reused by the time Exec sends it.
func WrapPipeline(dm olric.DMap) KV { return &plKV{dmKV{"PL", dm}} }

func (k *plKV) before(p *olric.DMapPipeline) {
	p.Put(bg, "pl~decoy-a", []byte("decoy-before-0123456789"))
	p.GetPut(bg, "pl~decoy-b", []byte("decoy-before-getput"))
	p.Incr(bg, "pl~decoy-n", 7)
}

func (k *plKV) after(p *olric.DMapPipeline) {
	p.GetPut(bg, "pl~decoy-b", []byte("DECOY-AFTER"))
	p.Put(bg, "pl~decoy-a", []byte("DECOY-AFTER-PUT-WITH-ANOTHER-LENGTH"), olric.EX(time.Hour))
	p.Expire(bg, "pl~decoy-a", 90*time.Minute)
	p.Incr(bg, "pl~decoy-n", 1000)
}

func (k *plKV) pipe() *olric.DMapPipeline {
	p, err := k.dm.Pipeline()
	if err != nil {
		panic(err)
	}
	return p
}

func (k *plKV) Put(key string, val []byte, o PutOpt) Res {
	p := k.pipe()
	defer p.Close()
	k.before(p)
	f, err := p.Put(bg, key, val, putOptions(o)...)
	if err != nil {
		return Res{Err: ErrClass(err)}
	}
	k.after(p)
	if err := p.Exec(bg); err != nil {
		return Res{Err: ErrClass(err)}
	}
	return Res{Err: ErrClass(f.Result())}
}

func (k *plKV) Get(key string) Res {
	p := k.pipe()
	defer p.Close()
	k.before(p)
	f := p.Get(bg, key)
	k.after(p)
	if err := p.Exec(bg); err != nil {
		return Res{Err: ErrClass(err)}
	}
	return fromGet(f.Result())
}

func (k *plKV) Del(keys ...string) Res {
	p := k.pipe()
	defer p.Close()
	k.before(p)
	var fs []*olric.FutureDelete
	for _, key := range keys {
		fs = append(fs, p.Delete(bg, key))
	}
	k.after(p)
	if err := p.Exec(bg); err != nil {
		return Res{Err: ErrClass(err)}
	}
	total := int64(0)
	for _, f := range fs {
		n, err := f.Result()
		if err != nil {
			return Res{Err: ErrClass(err)}
		}
		total += int64(n)
	}
	return Res{N: total}
}

func (k *plKV) Incr(key string, d int) Res {
	p := k.pipe()
	defer p.Close()
	k.before(p)
	f, err := p.Incr(bg, key, d)
	if err != nil {
		return Res{Err: ErrClass(err)}
	}
	k.after(p)
	if err := p.Exec(bg); err != nil {
		return Res{Err: ErrClass(err)}
	}
	n, err := f.Result()
	return Res{N: int64(n), Err: ErrClass(err)}
}

func (k *plKV) Decr(key string, d int) Res {
	p := k.pipe()
	defer p.Close()
	k.before(p)
	f, err := p.Decr(bg, key, d)
	if err != nil {
		return Res{Err: ErrClass(err)}
	}
	k.after(p)
	if err := p.Exec(bg); err != nil {
		return Res{Err: ErrClass(err)}
	}
	n, err := f.Result()
	return Res{N: int64(n), Err: ErrClass(err)}
}

func (k *plKV) IncrByFloat(key string, d float64) Res {
	p := k.pipe()
	defer p.Close()
	k.before(p)
	f, err := p.IncrByFloat(bg, key, d)
	if err != nil {
		return Res{Err: ErrClass(err)}
	}
	k.after(p)
	if err := p.Exec(bg); err != nil {
		return Res{Err: ErrClass(err)}
	}
	x, err := f.Result()
	return Res{F: x, Err: ErrClass(err)}
}

func (k *plKV) GetPut(key string, val []byte) Res {
	p := k.pipe()
	defer p.Close()
	k.before(p)
	f, err := p.GetPut(bg, key, val)
	if err != nil {
		return Res{Err: ErrClass(err)}
	}
	k.after(p)
	if err := p.Exec(bg); err != nil {
		return Res{Err: ErrClass(err)}
	}
	r, err := f.Result()
	if err == nil && (r == nil || VerifIsNilResponse(r)) {
		return Res{Nil: true}
	}
	return fromGet(r, err)
}

func (k *plKV) Expire(key string, d time.Duration) Res {
	p := k.pipe()
	defer p.Close()
	k.before(p)
	f, err := p.Expire(bg, key, d)
	if err != nil {
		return Res{Err: ErrClass(err)}
	}
	k.after(p)
	if err := p.Exec(bg); err != nil {
		return Res{Err: ErrClass(err)}
	}
	return Res{Err: ErrClass(f.Result())}
}
