// Package simcluster builds in-process olric clusters out of real olric.New members connected by
// simnet and the fake membership world, and exposes the transitions the engines explore:
// membership events, routing pushes, balancer runs, background-worker bodies, client operations
// through every entry point, and a white-box dump of every fragment on every member.
package simcluster

import (
	"context"
	"fmt"
	"io"
	"log"
	"sort"
	"strings"
	"time"

	"github.com/hashicorp/memberlist"
	olric "github.com/olric-data/olric"
	"github.com/olric-data/olric/config"
	"github.com/olric-data/olric/internal/cluster/partitions"
	"github.com/olric-data/olric/internal/discovery"
	"github.com/olric-data/olric/internal/dmap"
	"github.com/olric-data/olric/internal/verif/sched"
	vsync "github.com/olric-data/olric/internal/verif/shim/vsync"
	"github.com/olric-data/olric/internal/verif/simnet"
	"github.com/olric-data/olric/internal/verif/world"
)

type Opts struct {
	N          int
	Replicas   int
	WriteQ     int
	ReadQ      int
	MemberQ    int
	Partitions uint64
	TableSize  int
	ReadRepair bool
	LoadFactor float64

	LRU        bool
	MaxKeys    int
	MaxInuse   int
	LRUSamples int
	MaxIdle    time.Duration
	TTL        time.Duration
	// NoAutoDeliver: membership events stay queued until the engine delivers them.
	NoAutoDeliver bool
	// Custom: the eviction / idle / default-TTL settings above are given for this one DMap name
	// (config.DMaps.Custom) instead of for all DMaps.
	Custom string
	// Async: ReplicationMode = asynchronous. The replication goroutines a Put starts are queued and
	// run when the engine calls DeliverAsync (sequential engines only).
	Async bool
	// HoldGo: goroutines started on the client operation paths (rewritten `go` statements of
	// internal/dmap/put.go and get.go) are queued until DeliverAsync instead of running on their own.
	HoldGo bool
	// PortOf: member idx i gets the name 127.0.0.1:(41001+PortOf[i]) (default: i itself).
	PortOf []int
}

func (o Opts) withDefaults() Opts {
	if o.N == 0 {
		o.N = 1
	}
	if o.Replicas == 0 {
		o.Replicas = 1
	}
	if o.WriteQ == 0 {
		o.WriteQ = 1
	}
	if o.ReadQ == 0 {
		o.ReadQ = 1
	}
	if o.MemberQ == 0 {
		o.MemberQ = 1
	}
	if o.Partitions == 0 {
		o.Partitions = 7
	}
	if o.TableSize == 0 {
		o.TableSize = 1 << 16
	}
	return o
}

type Member struct {
	Idx      int
	Name     string
	DB       *olric.Olric
	Emb      *olric.EmbeddedClient
	Cfg      *config.Config
	Alive    bool
	Finished bool // start sequence completed (quorum reached, bootstrapped if coordinator)
	Gen      int
}

type Cluster struct {
	O       Opts
	pending []func() // queued asynchronous replication calls (Opts.Async)
	Members []*Member // every incarnation ever started, in start order
	nextIdx int
	ccSeq   int
	Log     []string
}

const basePort = 41001

// portMap (Opts.PortOf): member idx i listens on basePort+portMap[i] instead of basePort+i. Member names
// feed consistent hashing, so another assignment of names gives another sequence of partition moves
// for the same sequence of joins (e.g. a partition that moves twice before its first owner handed over).
var portMap []int

func portOf(idx int) int {
	if idx < len(portMap) {
		return portMap[idx]
	}
	return idx
}

func nameOf(idx int) string { return fmt.Sprintf("127.0.0.1:%d", basePort+portOf(idx)) }

// New boots a cluster of o.N members (sequential joins, all events delivered, stabilised).
// openClients: the cluster clients of the current cluster. Each owns a background goroutine
// (periodic routing-table fetch) that only ends with Close; a new cluster closes the clients of the
// previous one (one cluster is alive per process at a time), or explorations of many thousand
// executions would keep every old cluster reachable.
var openClients []*olric.ClusterClient

func closeClients() {
	for _, cc := range openClients {
		ctx, cancel := context.WithTimeout(context.Background(), time.Second)
		_ = cc.Close(ctx)
		cancel()
	}
	openClients = nil
}

func New(o Opts) *Cluster {
	o = o.withDefaults()
	closeClients()
	world.Reset()
	simnet.Reset()
	c := &Cluster{O: o}
	portMap = o.PortOf
	vsync.Spawn = nil
	if o.Async || o.HoldGo {
		vsync.Spawn = func(f func()) { c.pending = append(c.pending, f) }
	}
	for i := 0; i < o.N; i++ {
		if _, err := c.StartMember(c.nextIdx); err != nil {
			panic(fmt.Sprintf("simcluster: start member %d: %v", i, err))
		}
		if !o.NoAutoDeliver {
			c.DeliverAll()
		}
	}
	if !o.NoAutoDeliver {
		c.Stabilise()
	}
	return c
}

func (c *Cluster) Live() []*Member {
	var out []*Member
	for _, m := range c.Members {
		if m.Alive {
			out = append(out, m)
		}
	}
	return out
}

func (c *Cluster) ByName(name string) *Member {
	for i := len(c.Members) - 1; i >= 0; i-- {
		if c.Members[i].Name == name {
			return c.Members[i]
		}
	}
	return nil
}

func (c *Cluster) newConfig(idx int) *config.Config {
	o := c.O
	cfg := config.New("local")
	cfg.PartitionCount = o.Partitions
	cfg.ReplicaCount = o.Replicas
	if o.Async {
		cfg.ReplicationMode = config.AsyncReplicationMode
	}
	cfg.WriteQuorum = o.WriteQ
	cfg.ReadQuorum = o.ReadQ
	cfg.MemberCountQuorum = int32(o.MemberQ)
	cfg.ReadRepair = o.ReadRepair
	if o.LoadFactor != 0 {
		cfg.LoadFactor = o.LoadFactor
	}
	cfg.BindAddr = "127.0.0.1"
	cfg.BindPort = basePort + portOf(idx)
	mc := memberlist.DefaultLocalConfig()
	mc.BindAddr = "127.0.0.1"
	mc.BindPort = 42001 + portOf(idx)
	cfg.MemberlistConfig = mc
	for _, m := range c.Live() {
		cfg.Peers = append(cfg.Peers, m.Name)
	}
	cc := config.NewClient()
	cc.Dialer = simnet.DialerFor(nameOf(idx))
	cc.MaxRetries = -1
	cfg.Client = cc
	cfg.Logger = log.New(io.Discard, "", 0)
	cfg.LogOutput = io.Discard
	cfg.LogVerbosity = 1
	cfg.DMaps.Engine = &config.Engine{Config: map[string]interface{}{"tableSize": uint64(o.TableSize)}}
	if err := cfg.DMaps.Engine.Sanitize(); err != nil {
		panic(err)
	}
	if o.Custom != "" {
		d := config.DMap{MaxIdleDuration: o.MaxIdle, TTLDuration: o.TTL}
		if o.LRU {
			d.EvictionPolicy, d.MaxKeys, d.MaxInuse, d.LRUSamples = config.LRUEviction, o.MaxKeys, o.MaxInuse, o.LRUSamples
		}
		cfg.DMaps.Custom = map[string]config.DMap{o.Custom: d}
	} else {
		if o.LRU {
			cfg.DMaps.EvictionPolicy = config.LRUEviction
			cfg.DMaps.MaxKeys = o.MaxKeys
			cfg.DMaps.MaxInuse = o.MaxInuse
			cfg.DMaps.LRUSamples = o.LRUSamples
		}
		cfg.DMaps.MaxIdleDuration = o.MaxIdle
		cfg.DMaps.TTLDuration = o.TTL
	}
	day := 24 * time.Hour
	cfg.RoutingTablePushInterval = day
	cfg.TriggerBalancerInterval = day
	cfg.DMaps.CheckEmptyFragmentsInterval = day
	cfg.DMaps.TriggerCompactionInterval = day
	cfg.MaxJoinAttempts = 1
	cfg.JoinRetryInterval = time.Millisecond
	cfg.BootstrapTimeout = time.Millisecond
	return cfg
}

// StartMember creates member idx (a new incarnation when the name was used before) and makes it
// join through the currently live members. Its own and the others' membership events are queued.
func (c *Cluster) StartMember(idx int) (*Member, error) {
	cfg := c.newConfig(idx)
	db, err := olric.New(cfg)
	if err != nil {
		return nil, err
	}
	// Sanitize turned MaxRetries -1 into 0, which go-redis reads as "default 3": switch retries
	// off for good now (redis clients are created lazily from this config).
	cfg.Client.MaxRetries = -1
	cfg.Client.MinRetryBackoff = -1
	cfg.Client.MaxRetryBackoff = -1
	name := nameOf(idx)
	m := &Member{Idx: idx, Name: name, DB: db, Cfg: cfg, Alive: true}
	simnet.N.Register(name, db)
	if err := db.VerifStartManual(); err != nil {
		simnet.N.Kill(name)
		return nil, err
	}
	m.Emb = db.NewEmbeddedClient()
	c.Members = append(c.Members, m)
	if idx >= c.nextIdx {
		c.nextIdx = idx + 1
	}
	c.tryFinish(m)
	c.logf("start %s", name)
	return m, nil
}

func (c *Cluster) logf(f string, a ...interface{}) { c.Log = append(c.Log, fmt.Sprintf(f, a...)) }

func (c *Cluster) tryFinish(m *Member) {
	if m.Finished || !m.Alive {
		return
	}
	if err := m.DB.VerifRT().VerifStartFinish(); err == nil {
		m.Finished = true
	}
}

func (c *Cluster) node(m *Member) *world.Node { return m.DB.VerifRT().Discovery().VerifNode() }

// Pending reports how many membership events wait at m.
func (c *Cluster) Pending(m *Member) int { return len(c.node(m).Queue) }

// Deliver pops one membership event at m and runs the real listener body for it.
func (c *Cluster) Deliver(m *Member) bool {
	if !m.Alive {
		return false
	}
	e := c.node(m).Pop()
	if e == nil {
		return false
	}
	c.logf("deliver %s: %s(%s)", m.Name, e.Type, e.Name)
	m.DB.VerifRT().VerifClusterEvent(discovery.VerifConvert(e))
	c.Quiesce()
	c.tryFinish(m)
	return true
}

// DeliverAll delivers every pending event, joiners' own queues first (as a starting member does).
func (c *Cluster) DeliverAll() {
	for guard := 0; guard < 1000; guard++ {
		progress := false
		live := c.Live()
		sort.SliceStable(live, func(i, j int) bool { return !live[i].Finished && live[j].Finished })
		for _, m := range live {
			for c.Deliver(m) {
				progress = true
			}
		}
		for _, m := range c.Live() {
			c.tryFinish(m)
		}
		if !progress {
			return
		}
	}
	panic("simcluster: membership events never drain")
}

// DeliverAsync runs the queued asynchronous replication calls in the order they were started and
// returns how many there were.
func (c *Cluster) DeliverAsync() int {
	n := 0
	for len(c.pending) > 0 {
		f := c.pending[0]
		c.pending = c.pending[1:]
		f()
		n++
	}
	return n
}

// Quiesce waits for goroutines spawned by handlers.
func (c *Cluster) Quiesce() {
	for _, m := range c.Members {
		m.DB.VerifRT().VerifQuiesce()
	}
}

func (c *Cluster) Coordinator() *Member {
	var best *Member
	for _, m := range c.Live() {
		if m.DB.VerifRT().Discovery().IsCoordinator() {
			if best == nil {
				best = m
			}
		}
	}
	return best
}

// Push runs one routing-table push on the member that believes it is the coordinator.
func (c *Cluster) Push() {
	for _, m := range c.Live() {
		if m.Finished && m.DB.VerifRT().Discovery().IsCoordinator() {
			m.DB.VerifRT().UpdateEagerly()
		}
	}
	c.Quiesce()
}

// Balance runs one balancer pass on m (moves at most one table per fragment).
func (c *Cluster) Balance(m *Member) {
	if m.Alive {
		m.DB.VerifBalancer().BalanceEagerly()
	}
}

// Signature is a digest of routing tables and data placement used to detect a fixpoint.
func (c *Cluster) Signature() string {
	var b strings.Builder
	for _, m := range c.Live() {
		fmt.Fprintf(&b, "%s:", m.Name)
		tab := m.DB.VerifRT().VerifTable()
		for p := uint64(0); p < c.O.Partitions; p++ {
			r := tab[p]
			for _, o := range r.Owners {
				fmt.Fprintf(&b, "%d,", o.ID)
			}
			b.WriteByte('/')
			for _, o := range r.Backups {
				fmt.Fprintf(&b, "%d,", o.ID)
			}
			b.WriteByte(';')
		}
		for _, f := range m.DB.VerifDMap().VerifFragments() {
			fmt.Fprintf(&b, "%s%d%s=%d,", f.Kind[:1], f.PartID, f.Name, f.Stats.Length)
		}
		b.WriteByte('\n')
	}
	return b.String()
}

// Stabilise delivers all events, then alternates routing pushes and balancer passes until nothing
// changes any more. Returns the number of rounds, or -1 when 24 rounds were not enough.
func (c *Cluster) Stabilise() int {
	c.DeliverAll()
	prev := ""
	for round := 1; round <= 24; round++ {
		c.Push()
		for _, m := range c.Live() {
			c.Balance(m)
		}
		c.Quiesce()
		sig := c.Signature()
		if sig == prev {
			return round
		}
		prev = sig
	}
	return -1
}

// ---- failures ------------------------------------------------------------------------------

// Crash stops m abruptly: it disappears from the network; the others still believe in it.
func (c *Cluster) Crash(m *Member) {
	m.Alive = false
	simnet.N.Kill(m.Name)
	world.W.Crash(c.node(m))
	c.logf("crash %s", m.Name)
}

// Detect lets observer's failure detector notice that victim is gone (event queued at observer).
func (c *Cluster) Detect(observer, victim *Member) bool {
	return world.W.Detect(c.node(observer), victim.Name)
}

// DetectAll lets every live member detect every crashed member.
func (c *Cluster) DetectAll() {
	for _, o := range c.Live() {
		for _, v := range c.Members {
			if !v.Alive {
				c.Detect(o, v)
			}
		}
	}
}

// Leave shuts m down gracefully through the real Shutdown path.
func (c *Cluster) Leave(m *Member) {
	ctx, cancel := context.WithTimeout(context.Background(), 5*time.Second)
	_ = m.DB.Shutdown(ctx)
	cancel()
	m.Alive = false
	simnet.N.Kill(m.Name)
	c.logf("leave %s", m.Name)
}

// ---- clients -------------------------------------------------------------------------------

// ClusterClient opens an external cluster client that bootstraps from member via.
func (c *Cluster) ClusterClient(via *Member) (*olric.ClusterClient, error) {
	c.ccSeq++
	cc := config.NewClient()
	cc.Dialer = simnet.DialerFor(fmt.Sprintf("client:%d", c.ccSeq))
	cc.MaxRetries = -1
	cl, err := olric.NewClusterClient([]string{via.Name}, olric.WithConfig(cc), olric.WithLogger(log.New(io.Discard, "", 0)))
	if err != nil {
		return nil, err
	}
	cc.MaxRetries = -1
	cc.MinRetryBackoff = -1
	cc.MaxRetryBackoff = -1
	cl.VerifResetConns()
	openClients = append(openClients, cl)
	return cl, nil
}

// ---- placement helpers -----------------------------------------------------------------------

func (c *Cluster) PartID(dmapName, key string) uint64 {
	return partitions.HKey(dmapName, key) % c.O.Partitions
}

// Owner returns the live member that owns key's partition according to m's routing table.
func (c *Cluster) Owner(view *Member, dmapName, key string) *Member {
	tab := view.DB.VerifRT().VerifTable()
	r := tab[c.PartID(dmapName, key)]
	if len(r.Owners) == 0 {
		return nil
	}
	return c.ByName(r.Owners[len(r.Owners)-1].Name)
}

func (c *Cluster) Backups(view *Member, dmapName, key string) []*Member {
	tab := view.DB.VerifRT().VerifTable()
	var out []*Member
	for _, b := range tab[c.PartID(dmapName, key)].Backups {
		out = append(out, c.ByName(b.Name))
	}
	return out
}

// FindKey returns the first key "<prefix><n>" for which pred holds.
func (c *Cluster) FindKey(prefix string, pred func(key string) bool) string {
	for i := 0; i < 100000; i++ {
		k := fmt.Sprintf("%s%d", prefix, i)
		if pred(k) {
			return k
		}
	}
	panic("simcluster: no key satisfies the placement predicate")
}

// ---- white-box state ---------------------------------------------------------------------------

type Copy struct {
	Member string
	Kind   string
	PartID uint64
	Frag   string
	dmap.VerifEntry
}

// Copies returns every stored copy of (dmap,key) on every live member.
func (c *Cluster) Copies(dmapName, key string) []Copy {
	var out []Copy
	for _, m := range c.Live() {
		for _, f := range m.DB.VerifDMap().VerifFragments() {
			if f.Name != "dmap."+dmapName {
				continue
			}
			for _, e := range f.Entries {
				if e.Key == key {
					out = append(out, Copy{m.Name, f.Kind, f.PartID, f.Name, e})
				}
			}
		}
	}
	return out
}

// Tick advances the virtual clock.
func Tick(d time.Duration) { sched.AdvanceNS(int64(d)) }
