// Package kvops is the single-DMap operation-sequence search space shared by several properties:
// events are client operations (through one entry point), virtual clock ticks and background
// worker passes; a reference key/value model with millisecond expiry is advanced alongside.
package kvops

import (
	"bytes"
	"fmt"
	"sort"
	"strconv"
	"strings"
	"time"

	"github.com/olric-data/olric/internal/verif/clustermc"
	"github.com/olric-data/olric/internal/verif/confx"
	"github.com/olric-data/olric/internal/verif/sched"
	"github.com/olric-data/olric/internal/verif/simcluster"
)

type Ev = clustermc.Ev
type Fail = clustermc.Fail

type RefEntry struct {
	Val []byte
	Exp int64 // absolute ms, 0 = never
	// ExpUnknown: the statement does not fix the expiry after this operation (IncrByFloat)
	ExpUnknown bool
}

type Params struct {
	Name       string
	Opts       simcluster.Opts
	Entry      string
	DMap       string
	Keys       []string
	Alpha      []Ev
	Depth      int
	Mirror     bool // C04 oracle
	Visible    bool // C09 oracle: results and visibility against the reference model
	DefaultTTL time.Duration
	// Pre: events applied before the search starts (a non-initial start state: the same depth then
	// reaches one or two steps further into the histories that begin this way). Violations on the
	// way are the business of the configuration without Pre.
	Pre []Ev
}

type Sys struct {
	P       *Params
	Cl      *simcluster.Cluster
	KV      simcluster.KV
	Ref     map[string]*RefEntry
	Tokens  [][]byte // tokens handed out so far (canonicalisation + unlock/lease arguments)
	LastTok map[string][]byte
	LastRes simcluster.Res
	// Untracked keys: an operation whose effect the statements do not fix was applied (Incr on a
	// value that is not a number). Nothing is expected of them until a plain Put, GetPut or Delete
	// defines their state again; white-box oracles still apply.
	Untracked map[string]bool
	Fills     int // number of "fill" events applied so far
}

func nowMS() int64 { return sched.PeekNS() / 1e6 }

func New(p *Params) *Sys {
	sched.ResetClock()
	cl := simcluster.New(p.Opts)
	kv, err := cl.Entry(p.Entry, p.DMap, p.Keys[0])
	if err != nil {
		panic(err)
	}
	// leave the sub-millisecond region of instant 0 behind so that "now" is always k ms + a little
	s := &Sys{P: p, Cl: cl, KV: kv, Ref: map[string]*RefEntry{}, LastTok: map[string][]byte{}, Untracked: map[string]bool{}}
	for _, e := range p.Pre {
		s.Apply(e)
	}
	return s
}

func (s *Sys) live(key string) *RefEntry {
	e := s.Ref[key]
	if e == nil {
		return nil
	}
	if e.Exp != 0 && nowMS() >= e.Exp {
		return nil
	}
	return e
}

func (s *Sys) defaultExp() int64 {
	if s.P.DefaultTTL != 0 {
		return nowMS() + s.P.DefaultTTL.Milliseconds()
	}
	return 0
}

// Durations used by the alphabet.
const (
	durEX = 2300 * time.Millisecond // EX travels as (fractional) seconds on the wire paths
	durPX = 1500 * time.Millisecond
	// deliberately not whole seconds: Expire and Lease travel as (fractional) seconds on some
	// wire paths and as milliseconds on others
	durExpire = 2500 * time.Millisecond
	durLock   = 1500 * time.Millisecond
	durLease  = 2500 * time.Millisecond
)

var putValues = map[string]string{"": "10", "NX": "20", "XX": "30", "EX": "40", "PX": "50", "EXAT": "60", "PXAT": "70", "NX+PX": "80", "XX+EX": "90", "NX+EXAT": "100", "XX+PXAT": "110"}

func Describe(p *Params) func(e Ev) string {
	return func(e Ev) string {
		key := ""
		if e.A < len(p.Keys) {
			key = p.Keys[e.A]
		}
		switch e.K {
		case "put":
			return fmt.Sprintf("Put[%s](%s)", e.S, key)
		case "tick":
			return fmt.Sprintf("Tick(%dms)", e.B)
		case "evict", "janitor", "compact":
			return e.K
		case "fill":
			return "Put(4 neighbour keys of the partition)"
		case "incr", "decr":
			return fmt.Sprintf("%s(%s,%d)", e.K, key, e.B)
		}
		return fmt.Sprintf("%s(%s)", e.K, key)
	}
}

func expect(fs *[]Fail, op string, got simcluster.Res, wantErr string) bool {
	if got.Err != wantErr {
		w := wantErr
		if w == "" {
			w = "success"
		}
		g := got.Err
		if g == "" {
			g = "success"
		}
		*fs = append(*fs, Fail{Key: fmt.Sprintf("result/%s/want=%s/got=%s", op, w, strings.SplitN(g, ":", 2)[0]), What: fmt.Sprintf("%s returned %s, the specification says %s", op, g, w)})
		return false
	}
	return true
}

// Apply runs one event on the cluster and on the reference model.
func (s *Sys) Apply(e Ev) []Fail {
	var fs []Fail
	p := s.P
	key := p.Keys[0]
	if e.A < len(p.Keys) {
		key = p.Keys[e.A]
	}
	vis := p.Visible
	if s.Untracked[key] && e.K != "tick" && e.K != "evict" && e.K != "janitor" && e.K != "compact" && e.K != "fill" {
		return s.applyUntracked(e, key)
	}
	switch e.K {
	case "tick":
		sched.AdvanceNS(int64(e.B) * 1e6)
	case "evict":
		for _, m := range s.Cl.Live() {
			for part := uint64(0); part < s.Cl.O.Partitions; part++ {
				m.DB.VerifDMap().VerifEvictAll(part)
			}
		}
	case "janitor":
		for _, m := range s.Cl.Live() {
			m.DB.VerifDMap().VerifJanitor()
		}
	case "fill":
		// neighbours of the key (same partition, other names) are written so that the fragment -
		// on the primary and on every backup - moves on to another storage table: what is written
		// to the key afterwards lands in a later table than what was written before
		part := s.Cl.PartID(p.DMap, key)
		n := 0
		s.Cl.FindKey(fmt.Sprintf("fill%d-", s.Fills), func(k string) bool {
			if k != key && s.Cl.PartID(p.DMap, k) == part {
				s.KV.Put(k, []byte("FFFFFFFFFFFFFFFFFFFFFFFFFFFFFF"), simcluster.PutOpt{})
				n++
			}
			return n >= 4
		})
		s.Fills++
	case "compact":
		for _, m := range s.Cl.Live() {
			for part := uint64(0); part < s.Cl.O.Partitions; part++ {
				m.DB.VerifDMap().VerifCompactPartition(part)
			}
		}
	case "put":
		var o simcluster.PutOpt
		now := time.Duration(sched.PeekNS())
		for _, f := range strings.Split(e.S, "+") {
			switch f {
			case "NX":
				o.NX = true
			case "XX":
				o.XX = true
			case "EX":
				o.EX = durEX
			case "PX":
				o.PX = durPX
			case "EXAT":
				o.EXAT = (now + durEX).Truncate(time.Millisecond) // absolute, fractional seconds on the wire
			case "PXAT":
				o.PXAT = (now + durPX).Truncate(time.Millisecond)
			}
		}
		val := []byte(putValues[e.S])
		ms := nowMS()
		l := s.live(key)
		r := s.KV.Put(key, val, o)
		s.LastRes = r
		want := ""
		if o.NX && l != nil {
			want = "keyfound"
		}
		if o.XX && l == nil {
			want = "notfound"
		}
		if vis {
			expect(&fs, "Put["+e.S+"]", r, want)
		} else if r.Err != "" && r.Err != want {
			expect(&fs, "Put["+e.S+"]", r, want)
		}
		if r.Err == "" {
			exp := s.defaultExp()
			switch {
			case o.EX != 0:
				exp = ms + o.EX.Milliseconds()
			case o.PX != 0:
				exp = ms + o.PX.Milliseconds()
			case o.EXAT != 0:
				exp = o.EXAT.Milliseconds()
			case o.PXAT != 0:
				exp = o.PXAT.Milliseconds()
			}
			s.Ref[key] = &RefEntry{Val: val, Exp: exp}
		}
	case "get":
		l := s.live(key)
		r := s.KV.Get(key)
		s.LastRes = r
		if vis {
			if l == nil {
				expect(&fs, "Get", r, "notfound")
			} else if expect(&fs, "Get", r, "") {
				if !bytes.Equal(r.Val, l.Val) {
					fs = append(fs, Fail{"result/get/value", fmt.Sprintf("Get returned %q, the specification says %q", r.Val, l.Val)})
				}
				if !l.ExpUnknown && r.TTL != l.Exp {
					fs = append(fs, Fail{"result/get/ttl", fmt.Sprintf("Get reports expiry %d ms, the specification says %d ms (now %d)", r.TTL, l.Exp, nowMS())})
				}
			}
		}
	case "del":
		r := s.KV.Del(key)
		s.LastRes = r
		expect(&fs, "Delete", r, "")
		if r.Err == "" {
			delete(s.Ref, key)
		}
	case "expire":
		l := s.live(key)
		ms := nowMS()
		r := s.KV.Expire(key, durExpire)
		s.LastRes = r
		want := ""
		if l == nil {
			want = "notfound"
		}
		if vis || r.Err != "" {
			expect(&fs, "Expire", r, want)
		}
		if r.Err == "" && l != nil {
			l.Exp = ms + durExpire.Milliseconds()
			l.ExpUnknown = false
		}
		if r.Err == "" && l == nil {
			// acknowledged although the key is missing: whatever is stored now is outside the model
			delete(s.Ref, key)
		}
	case "expire0":
		// Expire with a zero timeout: no statement fixes what it means for the key's expiry, so the
		// key leaves the reference model; the white-box oracles (C04: backups mirror the primary)
		// apply to whatever it did
		l := s.live(key)
		r := s.KV.Expire(key, 0)
		s.LastRes = r
		if l != nil || r.Err == "" {
			s.Untracked[key] = true
		}
	case "getput":
		l := s.live(key)
		val := []byte("120")
		r := s.KV.GetPut(key, val)
		s.LastRes = r
		if expect(&fs, "GetPut", r, "") {
			if vis {
				if l == nil && !r.Nil {
					fs = append(fs, Fail{"result/getput/old-value-of-absent-key", fmt.Sprintf("GetPut returned old value %q for a key that is absent or expired", r.Val)})
				}
				if l != nil && (r.Nil || !bytes.Equal(r.Val, l.Val)) {
					fs = append(fs, Fail{"result/getput/old-value", fmt.Sprintf("GetPut returned %q (nil=%v), the specification says %q", r.Val, r.Nil, l.Val)})
				}
			}
			s.Ref[key] = &RefEntry{Val: val, Exp: s.defaultExp()}
		}
	case "incr", "decr":
		l := s.live(key)
		base := int64(0)
		if l != nil {
			base, _ = strconv.ParseInt(string(l.Val), 10, 64)
		}
		d := int64(e.B)
		var r simcluster.Res
		if e.K == "incr" {
			r = s.KV.Incr(key, int(d))
		} else {
			r = s.KV.Decr(key, int(d))
			d = -d
		}
		s.LastRes = r
		if l != nil {
			if _, err := strconv.ParseInt(string(l.Val), 10, 64); err != nil {
				// current value is not a number (e.g. a lock token): outcome not fixed by any statement
				s.Untracked[key] = true
				delete(s.Ref, key)
				break
			}
		}
		if expect(&fs, e.K, r, "") {
			if vis && r.N != base+d {
				fs = append(fs, Fail{"result/" + e.K + "/value", fmt.Sprintf("%s returned %d, the specification says %d (base %d)", e.K, r.N, base+d, base)})
			}
			ne := &RefEntry{Val: []byte(strconv.FormatInt(r.N, 10)), Exp: s.defaultExp()}
			if l != nil && (l.Exp != 0 || l.ExpUnknown) {
				ne.Exp, ne.ExpUnknown = l.Exp, l.ExpUnknown
			}
			s.Ref[key] = ne
		}
	case "incrf":
		l := s.live(key)
		r := s.KV.IncrByFloat(key, 0.5)
		s.LastRes = r
		if l != nil {
			if _, err := strconv.ParseFloat(string(l.Val), 64); err != nil {
				// not a number (a lock token): the call must fail and change nothing
				if r.Err == "" {
					fs = append(fs, Fail{"result/incrbyfloat/non-numeric-accepted", "IncrByFloat succeeded on a value that is not a number"})
				}
				break
			}
		}
		if expect(&fs, "IncrByFloat", r, "") {
			s.Ref[key] = &RefEntry{Val: []byte(strconv.FormatFloat(r.F, 'f', -1, 64)), ExpUnknown: true}
		}
	case "lock":
		l := s.live(key)
		ms := nowMS()
		timeout := time.Duration(0)
		if e.B != 0 {
			timeout = durLock
		}
		r := s.KV.Lock(key, timeout, 0)
		s.LastRes = r
		want := ""
		if l != nil {
			want = "locknotacquired"
		}
		expect(&fs, "Lock", r, want)
		if r.Err == "" {
			s.Tokens = append(s.Tokens, r.Token)
			s.LastTok[key] = r.Token
			exp := int64(0)
			if timeout != 0 {
				exp = ms + timeout.Milliseconds()
			}
			s.Ref[key] = &RefEntry{Val: r.Token, Exp: exp}
		}
	case "unlock", "lease":
		tok := s.LastTok[key]
		if e.B == 1 || tok == nil {
			tok = []byte("forged-token-16b!")
		}
		l := s.live(key)
		ms := nowMS()
		var r simcluster.Res
		if e.K == "unlock" {
			r = s.KV.Unlock(key, tok)
		} else {
			r = s.KV.Lease(key, tok, durLease)
		}
		s.LastRes = r
		want := ""
		if l == nil || !bytes.Equal(l.Val, tok) {
			want = "nosuchlock"
		}
		expect(&fs, e.K, r, want)
		if r.Err == "" && want == "" {
			if e.K == "unlock" {
				delete(s.Ref, key)
			} else {
				l.Exp = ms + durLease.Milliseconds()
			}
		}
	default:
		panic("kvops: unknown event " + e.K)
	}
	return fs
}

// applyUntracked runs an operation on a key whose state is outside the model: no expectations.
func (s *Sys) applyUntracked(e Ev, key string) []Fail {
	switch e.K {
	case "put":
		if e.S == "" {
			s.Untracked[key] = false
			return s.Apply(e)
		}
		var o simcluster.PutOpt
		o.NX = strings.Contains(e.S, "NX")
		o.XX = strings.Contains(e.S, "XX")
		if strings.Contains(e.S, "PX") {
			o.PX = durPX
		} else if strings.Contains(e.S, "EX") {
			o.EX = durEX
		}
		s.KV.Put(key, []byte(putValues[e.S]), o)
	case "get":
		s.KV.Get(key)
	case "del":
		s.Untracked[key] = false
		delete(s.Ref, key)
		return s.Apply(e)
	case "getput":
		// the old value it returns is outside the model; the new state is defined again
		val := []byte("120")
		if r := s.KV.GetPut(key, val); r.Err == "" {
			s.Untracked[key] = false
			s.Ref[key] = &RefEntry{Val: val, Exp: s.defaultExp()}
		}
	case "expire":
		s.KV.Expire(key, durExpire)
	case "expire0":
		s.KV.Expire(key, 0)
	case "incr":
		s.KV.Incr(key, e.B)
	case "decr":
		s.KV.Decr(key, e.B)
	case "incrf":
		s.KV.IncrByFloat(key, 0.5)
	case "lock":
		r := s.KV.Lock(key, 0, 0)
		if r.Err == "" {
			s.Tokens = append(s.Tokens, r.Token)
			s.LastTok[key] = r.Token
		}
	case "unlock":
		s.KV.Unlock(key, s.LastTok[key])
	case "lease":
		s.KV.Lease(key, s.LastTok[key], durLease)
	}
	return nil
}

func (s *Sys) tokName(v []byte) string {
	for i, t := range s.Tokens {
		if bytes.Equal(t, v) {
			return fmt.Sprintf("tok#%d", i)
		}
	}
	return string(v)
}

// Canon: reference state plus every stored copy, with times relative to now and timestamps ranked.
func (s *Sys) Canon() string {
	var b strings.Builder
	now := nowMS()
	for _, k := range s.P.Keys {
		if s.Untracked[k] {
			b.WriteString("U[" + k + "]")
		}
		if e := s.Ref[k]; e != nil {
			rel := int64(0)
			if e.Exp != 0 {
				rel = e.Exp - now
				if rel <= 0 {
					rel = -1
				}
			}
			fmt.Fprintf(&b, "R[%s=%s exp%+d u%v]", k, s.tokName(e.Val), rel, e.ExpUnknown)
		}
		cps := s.Cl.Copies(s.P.DMap, k)
		var tss []int64
		for _, c := range cps {
			tss = append(tss, c.Timestamp)
		}
		sort.Slice(tss, func(i, j int) bool { return tss[i] < tss[j] })
		rank := func(ts int64) int {
			n := 0
			var last int64 = -1
			for _, x := range tss {
				if x < ts && x != last {
					n++
					last = x
				}
			}
			return n
		}
		for _, c := range cps {
			rel := int64(0)
			if c.TTL != 0 {
				rel = c.TTL - now
				if rel <= 0 {
					rel = -1
				}
			}
			fmt.Fprintf(&b, "C[%s %s %s=%s ttl%+d ts%d]", c.Member[len(c.Member)-1:], c.Kind[:1], k, s.tokName(c.Value), rel, rank(c.Timestamp))
		}
	}
	if tok := s.LastTok[s.P.Keys[0]]; tok != nil {
		fmt.Fprintf(&b, "last=%s", s.tokName(tok))
	}
	if s.P.Opts.TableSize != 0 && s.P.Opts.TableSize < 1024 {
		// small tables: how the versions are spread over the storage tables is part of the state
		// (two paths are merged only when the stores cannot tell them apart either)
		part := s.Cl.PartID(s.P.DMap, s.P.Keys[0])
		for _, m := range s.Cl.Live() {
			for _, f := range m.DB.VerifDMap().VerifFragments() {
				if f.PartID != part || f.Name != "dmap."+s.P.DMap {
					continue
				}
				fmt.Fprintf(&b, "T[%s%s", m.Name[len(m.Name)-1:], f.Kind[:1])
				for _, t := range f.Tables {
					fmt.Fprintf(&b, "(s%d o%d g%d:", t.State, t.Offset, t.Garbage)
					for _, h := range t.HKeys {
						fmt.Fprintf(&b, "%d,", h[1])
					}
					b.WriteByte(')')
				}
				b.WriteByte(']')
			}
		}
	}
	return b.String()
}

// CheckMirror is the C04 oracle: every listed backup owner holds a copy identical to the primary
// copy (value, expiry, timestamp), absent exactly when the primary copy is absent.
func (s *Sys) CheckMirror() []Fail {
	var fs []Fail
	view := s.Cl.Live()[0]
	for _, k := range s.P.Keys {
		owner := s.Cl.Owner(view, s.P.DMap, k)
		backups := s.Cl.Backups(view, s.P.DMap, k)
		var prim *simcluster.Copy
		byMember := map[string]*simcluster.Copy{}
		for _, c := range s.Cl.Copies(s.P.DMap, k) {
			c := c
			if c.Kind == "primary" && c.Member == owner.Name {
				prim = &c
			}
			if c.Kind == "backup" {
				byMember[c.Member] = &c
			}
		}
		for _, b := range backups {
			bc := byMember[b.Name]
			switch {
			case prim == nil && bc != nil:
				fs = append(fs, Fail{"mirror/backup-has-copy-primary-absent", fmt.Sprintf("key %s: primary copy absent on %s, backup %s holds {val=%q ttl=%d ts=%d}", k, owner.Name, b.Name, s.tokName(bc.Value), bc.TTL, bc.Timestamp)})
			case prim != nil && bc == nil:
				fs = append(fs, Fail{"mirror/backup-missing", fmt.Sprintf("key %s: primary holds {val=%q ttl=%d}, backup %s has no copy", k, s.tokName(prim.Value), prim.TTL, b.Name)})
			case prim != nil && bc != nil:
				if !bytes.Equal(prim.Value, bc.Value) {
					fs = append(fs, Fail{"mirror/value-differs", fmt.Sprintf("key %s: primary value %q, backup %s value %q", k, s.tokName(prim.Value), b.Name, s.tokName(bc.Value))})
				} else if prim.TTL != bc.TTL {
					fs = append(fs, Fail{"mirror/expiry-differs", fmt.Sprintf("key %s: primary expiry %d, backup %s expiry %d", k, prim.TTL, b.Name, bc.TTL)})
				} else if prim.Timestamp != bc.Timestamp {
					fs = append(fs, Fail{"mirror/timestamp-differs", fmt.Sprintf("key %s: primary timestamp %d, backup %s timestamp %d", k, prim.Timestamp, b.Name, bc.Timestamp)})
				}
			}
		}
	}
	return fs
}

// CheckVisible is the C09 state oracle: a key is readable exactly when the model says it is live,
// from every member (evaluated on a throw-away replay).
func (s *Sys) CheckVisible() []Fail {
	var fs []Fail
	for _, k := range s.P.Keys {
		if s.Untracked[k] {
			continue
		}
		l := s.live(k)
		for _, m := range s.Cl.Live() {
			dm, err := m.Emb.NewDMap(s.P.DMap)
			if err != nil {
				continue
			}
			r := simcluster.WrapDMap("", dm).Get(k)
			if l == nil && r.Err != "notfound" {
				fs = append(fs, Fail{"visible/readable-after-expiry-or-delete", fmt.Sprintf("key %s is absent or expired in the specification (now %d ms) but Get via %s returns %q err=%q", k, nowMS(), m.Name, s.tokName(r.Val), r.Err)})
			}
			if l != nil && (r.Err != "" || !bytes.Equal(r.Val, l.Val)) {
				fs = append(fs, Fail{"visible/not-readable-before-expiry", fmt.Sprintf("key %s is live in the specification (%q, expiry %d, now %d) but Get via %s returns %q err=%q", k, s.tokName(l.Val), l.Exp, nowMS(), m.Name, s.tokName(r.Val), r.Err)})
			}
		}
	}
	return fs
}

// ConformTraces enumerates every sequence of length 1..maxLen over the time-free, placement-
// independent part of the alphabet, runs it on the simulated stack and records the observations:
// the traces the conformance replayer repeats on the unmodified stack.
func ConformTraces(p *Params, maxLen, cap int) []confx.Trace {
	var alpha []Ev
	for _, e := range p.Alpha {
		switch e.K {
		case "get", "del", "getput", "incr", "decr", "expire":
			alpha = append(alpha, e)
		case "put":
			if e.S == "" || e.S == "NX" || e.S == "XX" || e.S == "PX" || e.S == "NX+PX" {
				alpha = append(alpha, e)
			}
		case "lock":
			if e.B == 0 {
				alpha = append(alpha, e)
			}
		case "unlock", "lease":
			if e.B == 0 {
				alpha = append(alpha, e)
			}
		}
	}
	var out []confx.Trace
	run := func(path []Ev) {
		s := New(p)
		t := confx.Trace{ID: fmt.Sprintf("%s/%d", p.Name, len(out)), Members: p.Opts.N, R: p.Opts.Replicas, Entry: p.Entry}
		for _, e := range path {
			key := p.Keys[e.A]
			hadTok := s.LastTok[key] != nil
			if (e.K == "unlock" || e.K == "lease") && !hadTok {
				return // a forged token cannot be presented through the public API
			}
			if fs := s.Apply(e); len(fs) > 0 {
				return // a violating path is reported by the search itself, not replayed
			}
			if s.Untracked[key] {
				return
			}
			r := s.LastRes
			st := confx.Step{Op: e.K, Key: key, Err: strings.SplitN(r.Err, ":", 2)[0]}
			tok := func(v []byte) string {
				n := s.tokName(v)
				if strings.HasPrefix(n, "tok#") {
					return "<token>"
				}
				return n
			}
			switch e.K {
			case "put":
				st.Opt, st.Val = e.S, putValues[e.S]
			case "get":
				st.Out = tok(r.Val)
			case "getput":
				st.Val, st.Nil = "120", r.Nil
				if !r.Nil && r.Err == "" {
					st.Out = tok(r.Val)
				}
			case "incr", "decr":
				st.Delta, st.N, st.HasN = e.B, r.N, r.Err == ""
			case "unlock", "lease":
				st.Own = true
			}
			t.Steps = append(t.Steps, st)
		}
		out = append(out, t)
	}
	// all sequences of length 1, then 2, ... so that a cap only cuts the longest ones
	for l := 1; l <= maxLen && len(out) < cap; l++ {
		idx := make([]int, l)
		for {
			path := make([]Ev, l)
			for i, j := range idx {
				path[i] = alpha[j]
			}
			run(path)
			if len(out) >= cap {
				break
			}
			k := l - 1
			for k >= 0 {
				idx[k]++
				if idx[k] < len(alpha) {
					break
				}
				idx[k] = 0
				k--
			}
			if k < 0 {
				break
			}
		}
	}
	return out
}

// Spec wraps the parameters as a clustermc search space.
func Spec(p *Params) *clustermc.Spec {
	return &clustermc.Spec{
		Name:   p.Name,
		Depth:  p.Depth,
		New:    func() interface{} { return New(p) },
		Events: func(s interface{}) []Ev { return p.Alpha },
		Apply: func(s interface{}, e Ev) []Fail {
			fs := s.(*Sys).Apply(e)
			// asynchronous replication: what the step started is delivered before the state is
			// looked at (the mirror then has to hold exactly as with synchronous replication)
			s.(*Sys).Cl.DeliverAsync()
			return fs
		},
		Canon: func(s interface{}) string { return s.(*Sys).Canon() },
		Check: func(s interface{}) []Fail {
			sys := s.(*Sys)
			var fs []Fail
			if p.Mirror {
				fs = append(fs, sys.CheckMirror()...)
			}
			if p.Visible {
				fs = append(fs, sys.CheckVisible()...)
			}
			return fs
		},
		Describe: Describe(p),
		NonTrivial: func(s interface{}) bool {
			sys := s.(*Sys)
			for _, e := range sys.Ref {
				if e.Exp != 0 {
					return true
				}
			}
			return len(sys.Ref) > 0
		},
	}
}
