package core

import (
	"bufio"
	"encoding/json"
	"fmt"
	"os"
	"os/exec"
	"runtime"
	"sync"
	"time"
)

// JobFn runs one unit of work inside a worker process.
type JobFn func(params json.RawMessage) (interface{}, error)

var Jobs = map[string]JobFn{}

func RegisterJob(name string, f JobFn) { Jobs[name] = f }

type jobMsg struct {
	Job    string          `json:"job"`
	Idx    int             `json:"idx"`
	Params json.RawMessage `json:"params"`
}

type resMsg struct {
	// Exit: the worker is poisoned (a goroutine it could not stop keeps running) and exits after
	// this result; the parent must start a fresh worker for the next job.
	Exit bool            `json:"exit,omitempty"`
	Idx  int             `json:"idx"`
	Res  json.RawMessage `json:"res,omitempty"`
	Err  string          `json:"err,omitempty"`
}

// WorkerMain is the body of `vcheck --worker`: read job lines, write result lines.
func WorkerMain() {
	in := bufio.NewReaderSize(os.Stdin, 1<<20)
	out := bufio.NewWriter(os.Stdout)
	for {
		line, err := in.ReadBytes('\n')
		if len(line) > 0 {
			var m jobMsg
			if e := json.Unmarshal(line, &m); e != nil {
				fmt.Fprintln(os.Stderr, "worker: bad job:", e)
				os.Exit(2)
			}
			f := Jobs[m.Job]
			if f == nil {
				fmt.Fprintln(os.Stderr, "worker: unknown job", m.Job)
				os.Exit(2)
			}
			r := resMsg{Idx: m.Idx}
			func() {
				defer func() {
					if p := recover(); p != nil {
						r.Err = fmt.Sprintf("panic: %v", p)
					}
				}()
				v, e := f(m.Params)
				if e != nil {
					r.Err = e.Error()
				} else {
					r.Res, _ = json.Marshal(v)
				}
			}()
			r.Exit = poisoned
			b, _ := json.Marshal(r)
			out.Write(b)
			out.WriteByte('\n')
			out.Flush()
			if poisoned {
				os.Exit(0)
			}
		}
		if err != nil {
			return
		}
	}
}

var poisoned bool

// PoisonWorker marks this worker process as unfit for further jobs (e.g. a goroutine that cannot
// be stopped keeps spinning): it exits after delivering the result of the current job.
func PoisonWorker() { poisoned = true }

// Workers returns the number of worker processes to use.
func Workers() int {
	n := runtime.NumCPU()
	if v := os.Getenv("VERIF_WORKERS"); v != "" {
		fmt.Sscan(v, &n)
	}
	if n < 1 {
		n = 1
	}
	return n
}

// RunJobs distributes params over crash-isolated worker processes (GOMAXPROCS=1 each, address
// space capped). onResult is called serially. A job whose worker dies or exceeds perJob is
// reported with crash != "" (the worker is replaced and the remaining jobs continue).
func RunJobs(job string, params []interface{}, perJob time.Duration, onResult func(idx int, res json.RawMessage, crash string)) {
	RunJobsUntil(job, params, perJob, onResult, nil)
}

// RunJobsUntil is RunJobs with an early stop: once halt() reports true no further job is started
// (jobs in flight finish or hit their watchdog).
func RunJobsUntil(job string, params []interface{}, perJob time.Duration, onResult func(idx int, res json.RawMessage, crash string), halt func() bool) {
	type item struct {
		idx int
		p   json.RawMessage
	}
	queue := make(chan item, len(params))
	for i, p := range params {
		b, _ := json.Marshal(p)
		queue <- item{i, b}
	}
	close(queue)
	var mu sync.Mutex
	var wg sync.WaitGroup
	nw := Workers()
	if nw > len(params) {
		nw = len(params)
	}
	// workers run the very binary of this process, even when bin/vcheck is rebuilt meanwhile
	exe := fmt.Sprintf("/proc/%d/exe", os.Getpid())
	if _, err := os.Stat(exe); err != nil {
		exe, _ = os.Executable()
	}
	for w := 0; w < nw; w++ {
		wg.Add(1)
		go func() {
			defer wg.Done()
			var cmd *exec.Cmd
			var stdin *bufio.Writer
			var stdout *bufio.Reader
			var pipeIn interface{ Close() error }
			start := func() error {
				cmd = exec.Command("/bin/sh", "-c", "ulimit -v 12582912 2>/dev/null; exec \"$0\" --worker", exe)
				cmd.Env = append(os.Environ(), "GOMAXPROCS=1", "VERIF_WORKER=1")
				cmd.Stderr = os.Stderr
				wi, err := cmd.StdinPipe()
				if err != nil {
					return err
				}
				ro, err := cmd.StdoutPipe()
				if err != nil {
					return err
				}
				pipeIn = wi
				stdin = bufio.NewWriter(wi)
				stdout = bufio.NewReaderSize(ro, 1<<20)
				return cmd.Start()
			}
			stop := func() {
				if cmd != nil {
					pipeIn.Close()
					cmd.Process.Kill()
					cmd.Wait()
					cmd = nil
				}
			}
			defer stop()
			for it := range queue {
				if halt != nil {
					mu.Lock()
					h := halt()
					mu.Unlock()
					if h {
						continue // drain the queue without running
					}
				}
				if cmd == nil {
					if err := start(); err != nil {
						mu.Lock()
						onResult(it.idx, nil, "cannot start worker: "+err.Error())
						mu.Unlock()
						continue
					}
				}
				b, _ := json.Marshal(jobMsg{Job: job, Idx: it.idx, Params: it.p})
				stdin.Write(b)
				stdin.WriteByte('\n')
				stdin.Flush()
				type rd struct {
					line []byte
					err  error
				}
				ch := make(chan rd, 1)
				go func(r *bufio.Reader) {
					l, e := r.ReadBytes('\n')
					ch <- rd{l, e}
				}(stdout)
				select {
				case r := <-ch:
					var m resMsg
					if r.err != nil || json.Unmarshal(r.line, &m) != nil {
						stop()
						mu.Lock()
						onResult(it.idx, nil, fmt.Sprintf("worker died (%v)", r.err))
						mu.Unlock()
						continue
					}
					mu.Lock()
					if m.Err != "" {
						onResult(it.idx, nil, m.Err)
					} else {
						onResult(it.idx, m.Res, "")
					}
					mu.Unlock()
					if m.Exit {
						stop()
					}
				case <-time.After(perJob):
					stop()
					mu.Lock()
					onResult(it.idx, nil, fmt.Sprintf("no result within %s (worker killed)", perJob))
					mu.Unlock()
				}
			}
		}()
	}
	wg.Wait()
}
