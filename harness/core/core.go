// Package core holds what every check shares: the run context, violation bookkeeping with
// known-finding matching, replay files and the evidence writer.
package core

import (
	"crypto/sha1"
	"encoding/json"
	"fmt"
	"os"
	"path/filepath"
	"sort"
	"sync"
	"time"
)

var VerifDir = func() string {
	if v := os.Getenv("VERIF"); v != "" {
		return v
	}
	return "/verif"
}()

type Finding struct {
	Status   string `json:"status"` // known | fixed
	Property string `json:"property"`
	Key      string `json:"key"`
	What     string `json:"what"`
	Replay   string `json:"replay,omitempty"`
	Commit   string `json:"commit,omitempty"`
}

type Violation struct {
	Key    string      `json:"key"`  // fine-grained signature (scenario family / predicate / entry class)
	What   string      `json:"what"` // human readable
	Replay interface{} `json:"replay"`
	Count  int         `json:"count"`
}

type Ctx struct {
	ID    string
	Tier  string
	Seed  int64
	Level string
	Start time.Time
	// Deadline is the internal time budget; engines stop cleanly (exhaustive:false) when it passes.
	Deadline time.Time

	mu         sync.Mutex
	viol       map[string]*Violation
	Cov        map[string]interface{}
	Assume     []string
	samples    []interface{}
	Situations map[string]int
	NoEvidence bool // worker mode
}

func NewCtx(id, tier string, level string) *Ctx {
	c := &Ctx{ID: id, Tier: tier, Level: level, Start: time.Now(), viol: map[string]*Violation{},
		Cov: map[string]interface{}{}, Situations: map[string]int{}}
	fmt.Sscan(os.Getenv("VERIF_SEED"), &c.Seed)
	budget := 150 * time.Second
	if tier == "thorough" {
		budget = 25 * time.Minute
	}
	if v := os.Getenv("VERIF_BUDGET_S"); v != "" {
		var s int
		fmt.Sscan(v, &s)
		if s > 0 {
			budget = time.Duration(s) * time.Second
		}
	}
	c.Deadline = c.Start.Add(budget)
	return c
}

func (c *Ctx) Quick() bool                        { return c.Tier != "thorough" }
func (c *Ctx) TimeUp() bool                       { return time.Now().After(c.Deadline) }
func (c *Ctx) Assumef(f string, a ...interface{}) { c.Assume = append(c.Assume, fmt.Sprintf(f, a...)) }

// Sample records an explored case for the evidence file (first 8 are kept).
func (c *Ctx) Sample(s interface{}) {
	c.mu.Lock()
	if len(c.samples) < 8 {
		c.samples = append(c.samples, s)
	}
	c.mu.Unlock()
}

func (c *Ctx) Situation(name string) {
	c.mu.Lock()
	c.Situations[name]++
	c.mu.Unlock()
}

// Violate records a violation. Violations with the same key are merged (the first replay is kept).
func (c *Ctx) Violate(key, what string, replay interface{}) {
	c.mu.Lock()
	defer c.mu.Unlock()
	if v, ok := c.viol[key]; ok {
		v.Count++
		return
	}
	c.viol[key] = &Violation{Key: key, What: what, Replay: replay, Count: 1}
}

func (c *Ctx) NumViolations() int { c.mu.Lock(); defer c.mu.Unlock(); return len(c.viol) }

func (c *Ctx) Violations() []*Violation {
	c.mu.Lock()
	defer c.mu.Unlock()
	var out []*Violation
	for _, v := range c.viol {
		out = append(out, v)
	}
	sort.Slice(out, func(i, j int) bool { return out[i].Key < out[j].Key })
	return out
}

// MergeViolations adds violations reported by a worker process.
func (c *Ctx) MergeViolations(vs []*Violation) {
	c.mu.Lock()
	defer c.mu.Unlock()
	for _, v := range vs {
		if o, ok := c.viol[v.Key]; ok {
			o.Count += v.Count
		} else {
			c.viol[v.Key] = v
		}
	}
}

// Replayers re-execute one recorded scenario (the "replay" object of a replay file). Each engine
// registers one; it reports whether the payload is its own and the failures of the re-execution.
var Replayers []func(id string, raw json.RawMessage) (handled bool, fails []string)

// RunReplay re-executes the scenario of a replay file twice (the observations must be identical)
// and returns the process exit code: 0 no failure, 1 failure reproduced, 2 not replayable.
func RunReplay(id, path string) int {
	b, err := os.ReadFile(path)
	if err != nil {
		fmt.Fprintln(os.Stderr, "replay:", err)
		return 2
	}
	var f struct {
		Key    string          `json:"key"`
		Replay json.RawMessage `json:"replay"`
	}
	if err := json.Unmarshal(b, &f); err != nil {
		fmt.Fprintln(os.Stderr, "replay:", err)
		return 2
	}
	for _, r := range Replayers {
		ok, fails := r(id, f.Replay)
		if !ok {
			continue
		}
		_, again := r(id, f.Replay)
		if fmt.Sprint(fails) != fmt.Sprint(again) {
			fmt.Printf("REPLAY-NONDETERMINISTIC property=%s: first %v second %v\n", id, fails, again)
			return 2
		}
		if len(fails) == 0 {
			fmt.Printf("replay of %s: no failure (recorded key %s)\n", path, f.Key)
			return 0
		}
		fmt.Printf("VIOLATION property=%s replay=%s\n", id, path)
		for _, x := range fails {
			fmt.Println("  " + x)
		}
		return 1
	}
	fmt.Fprintf(os.Stderr, "replay: no engine re-executes this scenario directly; run ./vcheck %s quick\n", id)
	return 2
}

func LoadFindings() []Finding {
	var f struct {
		Findings []Finding `json:"findings"`
	}
	b, err := os.ReadFile(filepath.Join(VerifDir, "known_findings.json"))
	if err != nil {
		return nil
	}
	if err := json.Unmarshal(b, &f); err != nil {
		fmt.Fprintln(os.Stderr, "known_findings.json:", err)
		os.Exit(2)
	}
	return f.Findings
}

// Finish prints KNOWN-FINDING / VIOLATION lines, writes replay files and the evidence file, and
// returns the process exit code.
func (c *Ctx) Finish() int {
	known := map[string]Finding{}
	for _, f := range LoadFindings() {
		if f.Status == "known" && f.Property == c.ID {
			known[f.Key] = f
		}
	}
	code := 0
	nviol := 0
	var knownHit []string
	for _, v := range c.Violations() {
		if f, ok := known[v.Key]; ok {
			fmt.Printf("KNOWN-FINDING: property=%s %s [%s] (seen %d times)\n", c.ID, f.What, v.Key, v.Count)
			knownHit = append(knownHit, v.Key)
			continue
		}
		nviol++
		code = 1
		h := sha1.Sum([]byte(v.Key))
		p := filepath.Join(VerifDir, "replay", fmt.Sprintf("%s-%x.json", c.ID, h[:4]))
		os.MkdirAll(filepath.Dir(p), 0o755)
		b, _ := json.MarshalIndent(map[string]interface{}{"property": c.ID, "key": v.Key, "what": v.What, "replay": v.Replay, "count": v.Count}, "", " ")
		os.WriteFile(p, b, 0o644)
		fmt.Printf("VIOLATION property=%s replay=%s\n  key=%s\n  %s\n", c.ID, p, v.Key, v.What)
	}
	c.writeEvidence(nviol, knownHit)
	return code
}

func (c *Ctx) writeEvidence(nviol int, knownHit []string) {
	cov := c.Cov
	if len(c.samples) > 0 {
		cov["samples"] = c.samples
	}
	if len(c.Situations) > 0 {
		cov["situations_reached"] = c.Situations
	}
	if len(knownHit) > 0 {
		cov["known_findings_reproduced"] = knownHit
	}
	ev := map[string]interface{}{
		"property_id": c.ID, "tier": c.Tier, "seed": c.Seed, "level": c.Level,
		"coverage": cov, "assumptions": c.Assume, "wall_s": time.Since(c.Start).Seconds(), "violations": nviol,
	}
	if c.Assume == nil {
		ev["assumptions"] = []string{}
	}
	b, _ := json.MarshalIndent(ev, "", " ")
	p := filepath.Join(VerifDir, "evidence", c.ID+".json")
	os.MkdirAll(filepath.Dir(p), 0o755)
	if err := os.WriteFile(p, b, 0o644); err != nil {
		fmt.Fprintln(os.Stderr, "evidence:", err)
	}
}

// Check is a registered property check.
type Check struct {
	ID    string
	Level string
	Run   func(c *Ctx)
	// Replay re-runs one recorded counterexample; returns true when it still fails.
	Replay func(c *Ctx, replay json.RawMessage) bool
}

var Registry = map[string]*Check{}

func Register(ch *Check) { Registry[ch.ID] = ch }
