package kvmc

import (
	"bytes"
	"errors"
	"fmt"
	"regexp"
	"sort"

	"github.com/olric-data/olric/internal/kvstore/entry"
	"github.com/olric-data/olric/pkg/storage"
)

// MapOracle compares every lookup and iteration primitive of the store with the reference map (C11).
func MapOracle(w *World, _ []Op) []Fail {
	var fs []Fail
	add := func(k, f string, a ...interface{}) { fs = append(fs, Fail{k, fmt.Sprintf(f, a...)}) }
	st := w.St
	for key := 0; key < w.Cfg.Keys; key++ {
		hk := HKeyOf(key)
		m, present := w.Model[hk]
		e, err := st.Get(hk)
		if present {
			if err != nil {
				add("get-lost", "Get(%s) = %v, model has ts=%d", KeyName(key), err, m.TS)
				continue
			}
			if e.Key() != m.Key || !bytes.Equal(e.Value(), m.Value) || e.Timestamp() != m.TS || e.TTL() != m.TTL {
				add("get-stale", "Get(%s) = {key=%q val=%q ttl=%d ts=%d}, model {val=%q ttl=%d ts=%d}", KeyName(key), e.Key(), e.Value(), e.TTL(), e.Timestamp(), m.Value, m.TTL, m.TS)
			}
			raw, err := st.GetRaw(hk)
			if err != nil {
				add("getraw-lost", "GetRaw(%s) = %v", KeyName(key), err)
			} else {
				d := entry.New()
				d.Decode(raw)
				if d.Key() != m.Key || !bytes.Equal(d.Value(), m.Value) || d.Timestamp() != m.TS || d.TTL() != m.TTL {
					add("getraw-stale", "GetRaw(%s) decodes to ts=%d val=%q, model ts=%d", KeyName(key), d.Timestamp(), d.Value(), m.TS)
				}
			}
			if ttl, err := st.GetTTL(hk); err != nil || ttl != m.TTL {
				add("getttl-mismatch", "GetTTL(%s) = %d,%v model %d", KeyName(key), ttl, err, m.TTL)
			}
			if k, err := st.GetKey(hk); err != nil || k != m.Key {
				add("getkey-mismatch", "GetKey(%s) = %q,%v", KeyName(key), k, err)
			}
			if !st.Check(hk) {
				add("check-false", "Check(%s) = false for a present key", KeyName(key))
			}
		} else {
			if err == nil {
				add("get-resurrected", "Get(%s) = {val=%q ts=%d} for an absent key", KeyName(key), e.Value(), e.Timestamp())
			} else if !errors.Is(err, storage.ErrKeyNotFound) {
				add("get-error", "Get(%s) = %v", KeyName(key), err)
			}
			if _, err := st.GetRaw(hk); !errors.Is(err, storage.ErrKeyNotFound) {
				add("getraw-resurrected", "GetRaw(%s) err=%v for an absent key", KeyName(key), err)
			}
			if _, err := st.GetTTL(hk); !errors.Is(err, storage.ErrKeyNotFound) {
				add("getttl-resurrected", "GetTTL(%s) err=%v for an absent key", KeyName(key), err)
			}
			if st.Check(hk) {
				add("check-resurrected", "Check(%s) = true for an absent key", KeyName(key))
			}
		}
	}
	if n := st.Stats().Length; n != len(w.Model) {
		add("length-mismatch", "Stats().Length = %d, model has %d keys", n, len(w.Model))
	}
	visits := map[uint64]int{}
	st.Range(func(hk uint64, e storage.Entry) bool {
		visits[hk]++
		if m, ok := w.Model[hk]; ok && visits[hk] == 1 && e.Timestamp() != m.TS {
			// first visit is from the newest table: must be the newest version
			add("range-stale", "Range visits %s with ts=%d first, model ts=%d", e.Key(), e.Timestamp(), m.TS)
		}
		return true
	})
	rangeCheck(visits, w, "range", add)
	visits = map[uint64]int{}
	st.RangeHKey(func(hk uint64) bool { visits[hk]++; return true })
	rangeCheck(visits, w, "rangehkey", add)
	return fs
}

func rangeCheck(visits map[uint64]int, w *World, name string, add func(k, f string, a ...interface{})) {
	for hk, n := range visits {
		if _, ok := w.Model[hk]; !ok {
			add(name+"-ghost", "%s visits absent hkey %d", name, hk)
		} else if n != 1 {
			add(name+"-duplicate", "%s visits hkey %d %d times", name, hk, n)
		}
	}
	for hk := range w.Model {
		if visits[hk] == 0 {
			add(name+"-missed", "%s does not visit present hkey %d", name, hk)
		}
	}
}

// CompactionOracle: from this state, repeating Compaction() reports done within the bound and
// leaves the map unchanged (checked on a second replay of the path so the explored state is not
// perturbed).
func CompactionOracle(w *World, path []Op) []Fail {
	w2 := Build(w.Cfg, path)
	w2.CompactUntilDone()
	if w2.Fail != "" {
		return []Fail{{w2.FailKey, "from this state: " + w2.Fail}}
	}
	fs := MapOracle(w2, path)
	for i := range fs {
		fs[i].Key = "after-compaction/" + fs[i].Key
		fs[i].What = "after compaction until done: " + fs[i].What
	}
	return fs
}

var ScanCounts = []int{1, 2, 10}
var ScanPatterns = []string{"", "^a", "^zz"}

// ScanOracle: a full cursor iteration terminates and yields every present (matching) key at least
// once and no absent key (C12, storage level).
func ScanOracle(w *World, _ []Op) []Fail {
	var fs []Fail
	add := func(k, f string, a ...interface{}) { fs = append(fs, Fail{k, fmt.Sprintf(f, a...)}) }
	st := w.St
	stats := st.Stats()
	for _, count := range ScanCounts {
		for _, pat := range ScanPatterns {
			bound := 2*(stats.Length+stats.NumTables) + 8 + stats.Garbage/30
			got := map[string]int{}
			var cursor uint64
			calls := 0
			var err error
			for {
				calls++
				if calls > bound {
					add("scan-not-terminating", "scan COUNT=%d MATCH=%q still running after %d calls (cursor=%d)", count, pat, bound, cursor)
					break
				}
				f := func(e storage.Entry) bool {
					got[e.Key()]++
					return true
				}
				if pat == "" {
					cursor, err = st.Scan(cursor, count, f)
				} else {
					cursor, err = st.ScanRegexMatch(cursor, pat, count, f)
				}
				if err != nil {
					add("scan-error", "scan COUNT=%d MATCH=%q: %v", count, pat, err)
					break
				}
				if cursor == 0 {
					break
				}
			}
			var re *regexp.Regexp
			if pat != "" {
				re = regexp.MustCompile(pat)
			}
			var keys []string
			for k := range got {
				keys = append(keys, k)
			}
			sort.Strings(keys)
			for _, k := range keys {
				hk := uint64(0)
				if len(k) == 1 && k[0] >= 'a' && k[0] < 'a'+byte(w.Cfg.Keys) {
					hk = uint64(k[0]-'a') + 1
				}
				if _, ok := w.Model[hk]; !ok {
					add("scan-ghost", "scan COUNT=%d MATCH=%q yields absent key %q", count, pat, k)
				} else if re != nil && !re.MatchString(k) {
					add("scan-nonmatching", "scan COUNT=%d MATCH=%q yields %q", count, pat, k)
				}
			}
			for hk, m := range w.Model {
				_ = hk
				if re != nil && !re.MatchString(m.Key) {
					continue
				}
				if got[m.Key] == 0 {
					add("scan-missed", "scan COUNT=%d MATCH=%q misses present key %q", count, pat, m.Key)
				}
			}
		}
	}
	return fs
}

// ScanUnderChurnOracle: a cursor scan (COUNT=1, the finest paging) during which ONE operation of
// the alphabet is applied between two cursor calls - at every position of the scan, for every
// operation. A key that is present before the scan starts and is still present when it ends
// (whether or not its value was overwritten or its entry moved by compaction meanwhile) must be
// yielded at least once; a key that was absent before the scan and is never written during it
// must not be yielded; the scan must terminate.
func ScanUnderChurnOracle(w *World, path []Op) []Fail {
	var fs []Fail
	seen := map[string]bool{}
	add := func(k, f string, a ...interface{}) {
		if !seen[k] {
			seen[k] = true
			fs = append(fs, Fail{k, fmt.Sprintf(f, a...)})
		}
	}
	// number of cursor calls of the undisturbed scan
	calls0 := 0
	{
		var cursor uint64
		for calls0 < 64 {
			calls0++
			c, err := w.St.Scan(cursor, 1, func(storage.Entry) bool { return true })
			if err != nil || c == 0 {
				break
			}
			cursor = c
		}
	}
	for pos := 1; pos <= calls0; pos++ { // the operation lands after the pos-th cursor call
		for _, op := range w.Cfg.Alphabet() {
			if op.K == OpTransfer {
				continue // a transfer drops tables wholesale: the keys are not present any more
			}
			x := Build(w.Cfg, path)
			before := map[string]bool{}
			for _, m := range x.Model {
				before[m.Key] = true
			}
			stats := x.St.Stats()
			bound := 2*(stats.Length+stats.NumTables) + 16 + stats.Garbage/30
			got := map[string]int{}
			var cursor uint64
			calls := 0
			for {
				calls++
				if calls > bound {
					add("scan-under-churn/not-terminating", "scan COUNT=1 with %s applied after call %d still running after %d calls", op, pos, bound)
					break
				}
				c, err := x.St.Scan(cursor, 1, func(e storage.Entry) bool { got[e.Key()]++; return true })
				if err != nil {
					add("scan-under-churn/error", "scan COUNT=1 with %s applied after call %d: %v", op, pos, err)
					break
				}
				cursor = c
				if calls == pos {
					x.Apply(op)
				}
				if cursor == 0 {
					break
				}
			}
			after := map[string]bool{}
			for _, m := range x.Model {
				after[m.Key] = true
			}
			for k := range before {
				if after[k] && got[k] == 0 {
					add("scan-under-churn/stable-key-missed/op="+opNames[op.K], "scan COUNT=1 with %s applied after cursor call %d of %d misses key %q, which was present before the scan and still is (layout before: %s)", op, pos, calls0, k, Layout(w.St))
				}
			}
			for k := range got {
				if !before[k] && !after[k] {
					add("scan-under-churn/ghost", "scan COUNT=1 with %s applied after cursor call %d yields %q, which was never present", op, pos, k)
				}
			}
		}
	}
	return fs
}
