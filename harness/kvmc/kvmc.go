// Package kvmc is engine E1: explicit-state breadth-first search over the real kvstore.KVStore.
// A state is the operation path that reaches it; a successor is "fresh store, replay path, one
// more operation" (live stores cannot be cloned); states are de-duplicated on a canonical form of
// the table layout. A reference map is advanced alongside and compared in every state.
package kvmc

import (
	"errors"
	"fmt"
	"sort"
	"strings"
	"time"

	"github.com/olric-data/olric/internal/kvstore"
	"github.com/olric-data/olric/internal/kvstore/entry"
	"github.com/olric-data/olric/internal/kvstore/table"
	"github.com/olric-data/olric/internal/verif/sched"
	"github.com/olric-data/olric/pkg/storage"
)

type OpKind uint8

const (
	OpPut OpKind = iota
	OpPutRaw
	OpDel
	OpTTL
	OpCompact
	OpTransfer
	OpCompactAll
)

var opNames = [...]string{"put", "putraw", "del", "ttl", "compact", "transfer", "compactall"}

type Op struct {
	K    OpKind
	Key  int // index into key alphabet
	Size int // value size
}

func (o Op) String() string {
	switch o.K {
	case OpPut, OpPutRaw:
		return fmt.Sprintf("%s(%c,%d)", opNames[o.K], 'a'+o.Key, o.Size)
	case OpDel, OpTTL:
		return fmt.Sprintf("%s(%c)", opNames[o.K], 'a'+o.Key)
	}
	return opNames[o.K]
}

func PathString(p []Op) string {
	s := make([]string, len(p))
	for i, o := range p {
		s[i] = o.String()
	}
	return strings.Join(s, " ")
}

type Config struct {
	TableSize   int
	Keys        int
	Sizes       []int
	Kinds       []OpKind
	IdleTimeout int64 // ns; 0 => recycled tables are dropped at the end of a compaction pass
	MaxTables   int   // watchdog: more tables than this is reported as runaway allocation
}

func (c Config) Alphabet() []Op {
	var ops []Op
	for _, k := range c.Kinds {
		switch k {
		case OpPut, OpPutRaw:
			for key := 0; key < c.Keys; key++ {
				for _, s := range c.Sizes {
					ops = append(ops, Op{k, key, s})
				}
			}
		case OpDel, OpTTL:
			for key := 0; key < c.Keys; key++ {
				ops = append(ops, Op{k, key, 0})
			}
		default:
			ops = append(ops, Op{K: k})
		}
	}
	return ops
}

type MEntry struct {
	Key   string
	Value []byte
	TTL   int64
	TS    int64
}

// World is one real store plus its reference model.
type World struct {
	Cfg     Config
	St      *kvstore.KVStore
	Model   map[uint64]*MEntry
	Ver     int64
	Fail    string // first failed step expectation ("" = none)
	FailKey string
}

func HKeyOf(key int) uint64  { return uint64(key + 1) }
func KeyName(key int) string { return string(rune('a' + key)) }

func newStore(cfg Config) (*kvstore.KVStore, error) {
	c := storage.NewConfig(nil)
	c.Add("tableSize", uint64(cfg.TableSize))
	c.Add("maxIdleTableTimeout", time.Duration(cfg.IdleTimeout))
	parent, err := kvstore.New(c)
	if err != nil {
		return nil, err
	}
	child, err := parent.Fork(nil)
	if err != nil {
		return nil, err
	}
	return child.(*kvstore.KVStore), nil
}

func NewWorld(cfg Config) *World {
	st, err := newStore(cfg)
	if err != nil {
		panic(err)
	}
	return &World{Cfg: cfg, St: st, Model: map[uint64]*MEntry{}}
}

func value(ver int64, size int) []byte {
	b := make([]byte, size)
	for i := range b {
		b[i] = '.'
	}
	if size > 0 {
		b[0] = byte('A' + ver%26)
	}
	if size > 1 {
		b[1] = byte('a' + (ver/26)%26)
	}
	return b
}

func (w *World) fail(key, f string, a ...interface{}) {
	if w.Fail == "" {
		w.FailKey = key
		w.Fail = fmt.Sprintf(f, a...)
	}
}

func (w *World) tables() int { return w.St.Stats().NumTables }

// Apply executes one operation on the real store and on the model and checks the step result.
func (w *World) Apply(o Op) {
	hk := HKeyOf(o.Key)
	switch o.K {
	case OpPut, OpPutRaw:
		w.Ver++
		e := entry.New()
		e.SetKey(KeyName(o.Key))
		e.SetValue(value(w.Ver, o.Size))
		e.SetTimestamp(w.Ver)
		e.SetTTL(0)
		var err error
		if o.K == OpPut {
			err = w.St.Put(hk, e)
		} else {
			err = w.St.PutRaw(hk, e.Encode())
		}
		if err != nil {
			w.fail("step-error/"+opNames[o.K], "%s returned %v", o, err)
			return
		}
		w.Model[hk] = &MEntry{Key: e.Key(), Value: append([]byte{}, e.Value()...), TTL: 0, TS: w.Ver}
	case OpDel:
		if err := w.St.Delete(hk); err != nil {
			w.fail("step-error/del", "%s returned %v", o, err)
			return
		}
		delete(w.Model, hk)
	case OpTTL:
		w.Ver++
		e := entry.New()
		e.SetTTL(1000 + w.Ver)
		e.SetTimestamp(w.Ver)
		err := w.St.UpdateTTL(hk, e)
		m, ok := w.Model[hk]
		if ok {
			if err != nil {
				w.fail("step-error/ttl", "%s on a present key returned %v", o, err)
				return
			}
			m.TTL, m.TS = 1000+w.Ver, w.Ver
		} else if !errors.Is(err, storage.ErrKeyNotFound) {
			w.fail("step-error/ttl-missing", "%s on a missing key returned %v, want ErrKeyNotFound", o, err)
		}
	case OpCompact:
		if _, err := w.St.Compaction(); err != nil {
			w.fail("step-error/compact", "Compaction returned %v", err)
		}
	case OpCompactAll:
		w.CompactUntilDone()
	case OpTransfer:
		w.transfer()
	}
	if w.Cfg.MaxTables > 0 && w.tables() > w.Cfg.MaxTables {
		w.fail("runaway-tables", "%d tables after %s", w.tables(), o)
	}
}

// CompactionBound is the number of Compaction() steps within which "done" must be reported.
func (w *World) CompactionBound() int {
	st := w.St.Stats()
	return 4*(st.NumTables+st.Length) + 4
}

func (w *World) CompactUntilDone() int {
	bound := w.CompactionBound()
	for i := 1; i <= bound; i++ {
		done, err := w.St.Compaction()
		if err != nil {
			w.fail("step-error/compact", "Compaction returned %v", err)
			return i
		}
		if done {
			return i
		}
	}
	w.fail("compaction-not-done", "Compaction did not report done within %d steps", bound)
	return bound
}

// transfer moves every table to a fresh store with the real export/import/drop path and the
// last-write-wins merge used by fragment merging; the target becomes the store under test.
func (w *World) transfer() {
	dst, err := newStore(w.Cfg)
	if err != nil {
		panic(err)
	}
	it := w.St.TransferIterator()
	guard := 0
	for it.Next() {
		guard++
		if guard > 64 {
			w.fail("transfer-not-done", "transfer iterator still has tables after 64 rounds")
			return
		}
		data, index, err := it.Export()
		if err != nil {
			// io.EOF: only recycled tables are left
			break
		}
		err = dst.Import(data, func(hkey uint64, e storage.Entry) error {
			cur, err := dst.Get(hkey)
			if errors.Is(err, storage.ErrKeyNotFound) {
				return dst.Put(hkey, e)
			}
			if err != nil {
				return err
			}
			if cur.Timestamp() >= e.Timestamp() {
				return nil
			}
			return dst.Put(hkey, e)
		})
		if err != nil {
			w.fail("step-error/import", "Import returned %v", err)
			return
		}
		if err := it.Drop(index); err != nil {
			w.fail("step-error/drop", "Drop returned %v", err)
			return
		}
	}
	w.St = dst
}

// Build replays a path on a fresh world.
func Build(cfg Config, path []Op) *World {
	sched.ResetClock()
	w := NewWorld(cfg)
	for _, o := range path {
		w.Apply(o)
		if w.Fail != "" {
			break
		}
	}
	return w
}

// ---- decoded layout and canonical form -----------------------------------------------------

type Rec struct {
	Key   string
	TTL   int64
	TS    int64
	Value []byte
	Len   int
}

func decodeAt(mem []byte, off uint64) (r Rec, ok bool) {
	defer func() {
		if recover() != nil {
			ok = false
		}
	}()
	e := entry.New()
	e.Decode(mem[off:])
	return Rec{Key: e.Key(), TTL: e.TTL(), TS: e.Timestamp(), Value: e.Value(), Len: 29 + len(e.Key()) + len(e.Value())}, true
}

// Canon returns the canonical key of the store layout. Fields that cannot influence any future
// behaviour or verdict are dropped: last-access stamps, bytes not reachable through hkeys or the
// offset index, absolute coefficients (gaps are kept: scan looks up cf+1), absolute timestamps
// (only their order per key matters to the oracle and the merge) and ttl values (never interpreted
// by the store; kept as zero/non-zero).
func Canon(st *kvstore.KVStore) string {
	tabs := st.VerifTables()
	reg := st.VerifRegistered()
	comp := map[uint64]int{}
	prev, cur := uint64(0), 0
	for i, cf := range reg {
		if i == 0 {
			if cf != 0 {
				cur = 1
			}
		} else if cf-prev == 1 {
			cur++
		} else {
			cur += 2
		}
		comp[cf] = cur
		prev = cf
	}
	nextAdj := 0
	if len(reg) > 0 && st.VerifCoefficient()-reg[len(reg)-1] == 1 {
		nextAdj = 1
	}
	// timestamp ranks per key over reachable records
	tss := map[string][]int64{}
	type loc struct {
		t   int
		off uint64
	}
	recs := map[loc]Rec{}
	for ti, t := range tabs {
		offs := map[uint64]bool{}
		for _, h := range t.HKeys {
			offs[h[1]] = true
		}
		for _, o := range t.OffsetIndex {
			offs[o] = true
		}
		for o := range offs {
			if o >= t.Offset {
				recs[loc{ti, o}] = Rec{Key: "?stale"}
				continue
			}
			r, ok := decodeAt(t.Memory, o)
			if !ok {
				r = Rec{Key: "?bad"}
			}
			recs[loc{ti, o}] = r
			tss[r.Key] = append(tss[r.Key], r.TS)
		}
	}
	rank := func(key string, ts int64) int {
		n := 0
		seen := map[int64]bool{}
		for _, x := range tss[key] {
			if x < ts && !seen[x] {
				seen[x] = true
				n++
			}
		}
		return n
	}
	var b strings.Builder
	fmt.Fprintf(&b, "n%d;", nextAdj)
	for ti, t := range tabs {
		cf := -1
		isReg := false
		for _, r := range reg {
			if r == t.Coefficient {
				isReg = true
			}
		}
		if isReg {
			cf = comp[t.Coefficient]
		}
		rec := 0
		if t.RecycledAt != 0 {
			rec = 1
		}
		fmt.Fprintf(&b, "T%d s%d o%d u%d g%d a%d r%d|", cf, t.State, t.Offset, t.Inuse, t.Garbage, t.Allocated, rec)
		for _, h := range t.HKeys {
			fmt.Fprintf(&b, "h%d@%d,", h[0], h[1])
		}
		b.WriteByte('|')
		offs := append([]uint64{}, t.OffsetIndex...)
		for _, h := range t.HKeys {
			offs = append(offs, h[1])
		}
		sort.Slice(offs, func(i, j int) bool { return offs[i] < offs[j] })
		var last uint64 = ^uint64(0)
		idx := map[uint64]bool{}
		for _, o := range t.OffsetIndex {
			idx[o] = true
		}
		for _, o := range offs {
			if o == last {
				continue
			}
			last = o
			r := recs[loc{ti, o}]
			tf := 0
			if r.TTL != 0 {
				tf = 1
			}
			ix := 0
			if idx[o] {
				ix = 1
			}
			fmt.Fprintf(&b, "%d:%s/%d/%d/%d/i%d,", o, r.Key, len(r.Value), rank(r.Key, r.TS), tf, ix)
		}
		b.WriteByte(';')
	}
	return b.String()
}

// Layout is a readable dump for reports.
func Layout(st *kvstore.KVStore) string {
	var b strings.Builder
	fmt.Fprintf(&b, "registered=%v next=%d ", st.VerifRegistered(), st.VerifCoefficient())
	for _, t := range st.VerifTables() {
		fmt.Fprintf(&b, "[cf=%d state=%d off=%d inuse=%d garbage=%d hkeys=%v idx=%v] ", t.Coefficient, t.State, t.Offset, t.Inuse, t.Garbage, t.HKeys, t.OffsetIndex)
	}
	return b.String()
}

// Situations reports which structural situations a layout exhibits (vacuity guard).
func Situations(st *kvstore.KVStore, add func(string)) {
	tabs := st.VerifTables()
	if len(tabs) >= 3 {
		add("three-or-more-tables")
	}
	if len(tabs) >= 2 {
		add("entry-did-not-fit-new-table")
	}
	reg := st.VerifRegistered()
	for i := 1; i < len(reg); i++ {
		if reg[i]-reg[i-1] > 1 {
			add("hole-in-table-numbering")
		}
	}
	owners := map[uint64]int{}
	for i, t := range tabs {
		if t.State == table.RecycledState {
			add("recycled-table-present")
		}
		if t.RecycledAt != 0 && t.State != table.RecycledState {
			add("recycled-table-reused")
		}
		if float64(t.Garbage) >= float64(t.Allocated)*0.4 {
			add("table-qualifies-for-compaction")
			if i == len(tabs)-1 {
				add("active-table-qualifies-for-compaction")
			}
		}
		for _, h := range t.HKeys {
			owners[h[0]]++
		}
		if len(t.OffsetIndex) != len(t.HKeys) {
			add("offset-index-differs-from-hkeys")
		}
	}
	for _, n := range owners {
		if n > 1 {
			add("key-has-versions-in-two-tables")
		}
	}
}

// ---- BFS -----------------------------------------------------------------------------------

type Fail struct {
	Key  string // predicate signature
	What string
}

type Result struct {
	States      int
	Transitions int
	Depth       int
	Exhaustive  bool // frontier emptied before the depth bound (closed state space)
	Capped      string
	PerDepth    []int
}

type Search struct {
	Cfg      Config
	Depth    int
	MaxFails int
	// CheckState is evaluated in every newly reached state (after the step expectations passed).
	CheckState func(w *World, path []Op) []Fail
	OnFail     func(path []Op, f Fail, w *World)
	OnState    func(path []Op, w *World)
	TimeUp     func() bool
}

func (s *Search) Run() Result {
	var res Result
	alpha := s.Cfg.Alphabet()
	seen := map[string]bool{}
	root := Build(s.Cfg, nil)
	seen[Canon(root.St)] = true
	res.States = 1
	frontier := [][]Op{nil}
	fails := 0
	for d := 0; d < s.Depth; d++ {
		var next [][]Op
		for _, path := range frontier {
			if s.TimeUp != nil && s.TimeUp() {
				res.Capped = fmt.Sprintf("time budget reached at depth %d", d)
				res.Depth = d
				return res
			}
			for _, op := range alpha {
				np := append(append(make([]Op, 0, len(path)+1), path...), op)
				w := Build(s.Cfg, np)
				res.Transitions++
				bad := false
				if w.Fail != "" {
					bad = true
					s.OnFail(np, Fail{w.FailKey, w.Fail}, w)
					fails++
				} else {
					for _, f := range s.CheckState(w, np) {
						bad = true
						s.OnFail(np, f, w)
						fails++
						break
					}
				}
				if fails >= s.MaxFails && s.MaxFails > 0 {
					res.Capped = "violation cap reached"
					res.Depth = d + 1
					return res
				}
				if bad {
					continue // do not expand beyond a violating state
				}
				k := Canon(w.St)
				if seen[k] {
					continue
				}
				seen[k] = true
				res.States++
				if s.OnState != nil {
					s.OnState(np, w)
				}
				next = append(next, np)
			}
		}
		res.PerDepth = append(res.PerDepth, len(next))
		res.Depth = d + 1
		frontier = next
		if len(frontier) == 0 {
			res.Exhaustive = true
			break
		}
	}
	return res
}
