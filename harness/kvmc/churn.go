package kvmc

import (
	"fmt"

	"github.com/olric-data/olric/internal/kvstore/table"
)

// ChurnResult reports the fixpoint search of C20.
type ChurnResult struct {
	States      int // distinct post-compaction states
	Transitions int // bursts executed
	Ops         int // single operations executed
	Closed      bool
	Rounds      int
	Capped      string
	MaxTables   int
	MaxAlloc    int
}

// ChurnSearch explores, to a fixpoint, the states reachable by rounds of "at most burst operations
// from the alphabet, then compaction until done". A state is a post-compaction store layout in
// canonical form. If the frontier empties, every churn workload of ANY length made of such rounds
// stays inside the explored set - and therefore inside the bounds checked on each of its states.
type ChurnSearch struct {
	Cfg       Config
	Burst     int
	MaxRounds int
	// Check runs on every state right after an operation (accounting) ...
	CheckAny func(w *World) []Fail
	// ... and on every post-compaction state (bounds).
	CheckCompacted func(w *World) []Fail
	OnFail         func(path []Op, f Fail, w *World)
	TimeUp         func() bool
	OnState        func(path []Op, w *World)
}

func (s *ChurnSearch) Run() ChurnResult {
	var res ChurnResult
	alpha := s.Cfg.Alphabet()
	seen := map[string]bool{}
	root := Build(s.Cfg, nil)
	seen[Canon(root.St)] = true
	res.States = 1
	frontier := [][]Op{nil}
	fails := 0
	for round := 0; round < s.MaxRounds && len(frontier) > 0; round++ {
		var next [][]Op
		for _, base := range frontier {
			if s.TimeUp != nil && s.TimeUp() {
				res.Capped = fmt.Sprintf("time budget reached in round %d", round+1)
				res.Rounds = round
				return res
			}
			// every burst of length 1..Burst
			var rec func(burst []Op)
			rec = func(burst []Op) {
				if len(burst) > 0 {
					path := append(append(append([]Op{}, base...), burst...), Op{K: OpCompactAll})
					w := Build(s.Cfg, path[:len(path)-1])
					res.Transitions++
					res.Ops += len(burst)
					bad := false
					report := func(fs []Fail, p []Op) {
						for _, f := range fs {
							bad = true
							fails++
							s.OnFail(p, f, w)
							break
						}
					}
					if w.Fail != "" {
						report([]Fail{{w.FailKey, w.Fail}}, path[:len(path)-1])
					} else {
						report(s.CheckAny(w), path[:len(path)-1])
					}
					if !bad {
						w.Apply(Op{K: OpCompactAll})
						if w.Fail != "" {
							report([]Fail{{w.FailKey, w.Fail}}, path)
						} else {
							report(s.CheckAny(w), path)
							if !bad {
								report(s.CheckCompacted(w), path)
							}
						}
					}
					if !bad {
						st := w.St.Stats()
						if st.NumTables > res.MaxTables {
							res.MaxTables = st.NumTables
						}
						if st.Allocated > res.MaxAlloc {
							res.MaxAlloc = st.Allocated
						}
						k := Canon(w.St)
						if !seen[k] {
							seen[k] = true
							res.States++
							next = append(next, path)
							if s.OnState != nil {
								s.OnState(path, w)
							}
						}
					}
				}
				if len(burst) == s.Burst || fails > 20 {
					return
				}
				for _, op := range alpha {
					rec(append(append([]Op{}, burst...), op))
				}
			}
			rec(nil)
			if fails > 20 {
				res.Capped = "violation cap reached"
				res.Rounds = round + 1
				return res
			}
		}
		frontier = next
		res.Rounds = round + 1
	}
	res.Closed = len(frontier) == 0
	if !res.Closed && res.Capped == "" {
		res.Capped = fmt.Sprintf("round bound %d reached with %d unexplored states", s.MaxRounds, len(frontier))
	}
	return res
}

// AccountingOracle: in every state, per table inuse+garbage = offset, the sum of inuse equals the
// size of the live entries (superseded and deleted bytes are garbage), Length = live keys.
func AccountingOracle(w *World) []Fail {
	var fs []Fail
	live := 0
	for _, m := range w.Model {
		live += 29 + len(m.Key) + len(m.Value)
	}
	sum := 0
	for i, t := range w.St.VerifTables() {
		if t.State == table.RecycledState {
			continue
		}
		if t.Inuse+t.Garbage != t.Offset {
			fs = append(fs, Fail{"accounting/inuse-plus-garbage", fmt.Sprintf("table #%d: inuse %d + garbage %d != offset %d (superseded bytes not accounted)", i, t.Inuse, t.Garbage, t.Offset)})
		}
		sum += int(t.Inuse)
	}
	if sum != live {
		fs = append(fs, Fail{"accounting/inuse-vs-live", fmt.Sprintf("sum of inuse %d != size of live entries %d", sum, live)})
	}
	if n := w.St.Stats().Length; n != len(w.Model) {
		fs = append(fs, Fail{"accounting/length", fmt.Sprintf("Stats().Length %d != %d live keys", n, len(w.Model))})
	}
	return fs
}

// BoundedOracle: once compaction has run to completion, no live table is above the garbage
// threshold and the number of tables is at most live keys + 2 (recycled tables counted only while
// their idle timeout has not passed - with IdleTimeout 0 they must be gone).
func BoundedOracle(w *World) []Fail {
	var fs []Fail
	tabs := w.St.VerifTables()
	n := 0
	for i, t := range tabs {
		if t.State == table.RecycledState {
			if w.Cfg.IdleTimeout == 0 && len(tabs) > 1 {
				fs = append(fs, Fail{"bounded/recycled-table-kept", fmt.Sprintf("table #%d is recycled and still allocated after compaction with a zero idle timeout", i)})
			}
			continue
		}
		n++
		if float64(t.Garbage) >= float64(t.Allocated)*0.4 {
			fs = append(fs, Fail{"bounded/garbage-above-threshold", fmt.Sprintf("after compaction table #%d has garbage %d of %d allocated (threshold 40%%)", i, t.Garbage, t.Allocated)})
		}
	}
	if limit := len(w.Model) + 2; n > limit {
		fs = append(fs, Fail{"bounded/too-many-tables", fmt.Sprintf("after compaction %d tables hold %d live keys (bound: keys + 2)", n, len(w.Model))})
	}
	return fs
}
