package kvmc

import (
	"fmt"

	"github.com/olric-data/olric/internal/kvstore/entry"
)

// BatchCase: one table holding Live entries that stay and enough deleted ones to push it over the
// compaction threshold; compaction is then run until it reports done. The numbers walk across the
// size of one compaction step (the code moves entries in batches of about a thousand): a table
// whose survivors need one step, exactly one step, one step and one entry, two steps ...
type BatchCase struct {
	Live int  `json:"live"`
	Raw  bool `json:"raw"` // entries written with PutRaw (replica mode)
	// Spread: the deleted entries are interleaved with the survivors (otherwise they come first)
	Spread bool `json:"spread"`
}

func (c BatchCase) String() string {
	return fmt.Sprintf("one table, %d surviving entries, replica-mode=%v, deleted entries interleaved=%v", c.Live, c.Raw, c.Spread)
}

func BatchCases() []BatchCase {
	var out []BatchCase
	for _, l := range []int{1, 999, 1000, 1001, 1002, 1999, 2000, 2001, 2002, 2003, 3003} {
		for _, raw := range []bool{false, true} {
			for _, sp := range []bool{false, true} {
				out = append(out, BatchCase{l, raw, sp})
			}
		}
	}
	return out
}

// RunBatch executes one case on the real store and compares it with the reference map.
func RunBatch(c BatchCase) []Fail {
	const entrySize = 64 // approximate footprint of one entry (key 8 + value 20 + header)
	// the table must hold all survivors plus at least 40% garbage
	tableSize := (c.Live*entrySize*10/6 + 4096) * 2
	garbageEntries := tableSize*45/100/56 + 64 // comfortably above the 40% threshold
	w := NewWorld(Config{TableSize: tableSize, Keys: 1, IdleTimeout: 0, MaxTables: 0})
	var fs []Fail
	add := func(k, f string, a ...interface{}) { fs = append(fs, Fail{k, fmt.Sprintf(f, a...)}) }
	put := func(i int, doomed bool) bool {
		e := entry.New()
		name := fmt.Sprintf("k%07d", i)
		if doomed {
			name = fmt.Sprintf("d%07d", i)
		}
		e.SetKey(name)
		e.SetValue([]byte(fmt.Sprintf("value-of-%s-xxxxx", name)))
		e.SetTimestamp(int64(i + 1))
		hk := uint64(i + 1)
		if doomed {
			hk += 1 << 32
		}
		var err error
		if c.Raw {
			err = w.St.PutRaw(hk, e.Encode())
		} else {
			err = w.St.Put(hk, e)
		}
		if err != nil {
			add("batch/setup", "write %d failed: %v", i, err)
			return false
		}
		if !doomed {
			w.Model[hk] = &MEntry{Key: name, Value: append([]byte{}, e.Value()...), TS: int64(i + 1)}
		}
		return true
	}
	// write
	if c.Spread {
		n := c.Live
		if garbageEntries > n {
			n = garbageEntries
		}
		for i := 0; i < n; i++ {
			if i < garbageEntries && !put(i, true) {
				return fs
			}
			if i < c.Live && !put(i, false) {
				return fs
			}
		}
	} else {
		for i := 0; i < garbageEntries; i++ {
			if !put(i, true) {
				return fs
			}
		}
		for i := 0; i < c.Live; i++ {
			if !put(i, false) {
				return fs
			}
		}
	}
	if n := w.St.Stats().NumTables; n != 1 {
		add("batch/setup", "the entries were meant to fit one table, the store has %d", n)
		return fs
	}
	for i := 0; i < garbageEntries; i++ {
		if err := w.St.Delete(uint64(i+1) + 1<<32); err != nil {
			add("batch/setup", "delete failed: %v", err)
			return fs
		}
	}
	if st := w.St.Stats(); float64(st.Garbage) < 0.4*float64(st.Allocated) {
		add("batch/setup", "the table was meant to pass the compaction threshold: garbage %d of %d allocated", st.Garbage, st.Allocated)
		return fs
	}
	// compaction until done, bounded
	steps, done := 0, false
	bound := (c.Live+garbageEntries)/500 + 16
	for steps < bound {
		steps++
		d, err := w.St.Compaction()
		if err != nil {
			add("batch/compaction-error", "Compaction returned %v at step %d", err, steps)
			return fs
		}
		if d {
			done = true
			break
		}
	}
	if !done {
		add("batch/compaction-not-done", "Compaction did not report done within %d steps", bound)
	}
	// compare with the reference map
	if got := w.St.Stats().Length; got != len(w.Model) {
		add("batch/length", "after compaction the store reports %d entries, %d were written and never deleted", got, len(w.Model))
	}
	missing, wrong := 0, 0
	first := ""
	for hk, m := range w.Model {
		e, err := w.St.Get(hk)
		if err != nil {
			missing++
			if first == "" {
				first = m.Key
			}
			continue
		}
		if e.Key() != m.Key || string(e.Value()) != string(m.Value) {
			wrong++
		}
	}
	if missing > 0 {
		add("batch/entries-lost-by-compaction", "after compaction %d of %d surviving entries are gone (e.g. %s)", missing, len(w.Model), first)
	}
	if wrong > 0 {
		add("batch/entries-changed-by-compaction", "after compaction %d entries read back with another key or value", wrong)
	}
	if st := w.St.Stats(); st.NumTables > 2 {
		add("batch/tables-left", "after compaction (idle timeout 0) %d tables are allocated for one table's worth of data", st.NumTables)
	}
	return fs
}
