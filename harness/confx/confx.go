// Package confx exports traces explored on the simulated stack and has them replayed against the
// unmodified olric stack by /verif/bin/conform (real TCP, real memberlist, real clock, public API).
package confx

import (
	"bufio"
	"encoding/json"
	"fmt"
	"os"
	"os/exec"
	"path/filepath"
	"time"

	"github.com/olric-data/olric/internal/verif/core"
)

// Step / Trace mirror the types of /verif/conform/main.go.
type Step struct {
	Op    string `json:"op"`
	Key   string `json:"key"`
	Opt   string `json:"opt,omitempty"`
	Val   string `json:"val,omitempty"`
	Delta int    `json:"delta,omitempty"`
	Own   bool   `json:"own,omitempty"`
	Err   string `json:"err"`
	Out   string `json:"out,omitempty"`
	Nil   bool   `json:"nil,omitempty"`
	N     int64  `json:"n,omitempty"`
	HasN  bool   `json:"has_n,omitempty"`
}

type Trace struct {
	ID      string        `json:"id"`
	Members int           `json:"members"`
	R       int           `json:"r"`
	Entry   string        `json:"entry"`
	Steps   []Step        `json:"steps"`
	Ps      []PsStep      `json:"ps,omitempty"`
	P       uint64        `json:"p,omitempty"`
	Mem     []MemStep     `json:"mem,omitempty"`
	Table0  [][2][]string `json:"table0,omitempty"`
}

type MemStep struct {
	Op    string        `json:"op"`
	Idx   int           `json:"idx"`
	Table [][2][]string `json:"table"`
}

type PsStep struct {
	Op     string     `json:"op"`
	Conn   int        `json:"conn"`
	Member int        `json:"member"`
	Name   string     `json:"name"`
	Count  int        `json:"count"`
	Recv   []int      `json:"recv"`
	Chans  [][]string `json:"chans"`
	NumSub [][]int64  `json:"numsub"`
	NumPat []int64    `json:"numpat"`
}

type Summary struct {
	Traces        int      `json:"traces"`
	Validated     int      `json:"validated"`
	Disagreements []string `json:"disagreements"`
	Inconclusive  int      `json:"inconclusive"`
	Clusters      int      `json:"clusters_started"`
	WallS         float64  `json:"wall_s"`
}

// Replay writes the traces to build/traces/<id>.jsonl, runs the conformance replayer and folds
// the outcome into the evidence. A disagreement between the simulated and the real run is a defect
// of the harness stand-ins, never a property verdict: it is reported loudly and counted, and the
// traces concerned are not counted as validated.
func Replay(c *core.Ctx, traces []Trace) {
	c.Cov["traces_validated_against_impl"] = 0
	if len(traces) == 0 {
		return
	}
	bin := filepath.Join(core.VerifDir, "bin", "conform")
	if _, err := os.Stat(bin); err != nil {
		c.Cov["conformance"] = "replayer not built (bin/conform missing): 0 traces validated"
		return
	}
	dir := filepath.Join(core.VerifDir, "build", "traces")
	os.MkdirAll(dir, 0o755)
	path := filepath.Join(dir, c.ID+".jsonl")
	f, err := os.Create(path)
	if err != nil {
		c.Cov["conformance"] = "cannot write traces: " + err.Error()
		return
	}
	w := bufio.NewWriter(f)
	for _, t := range traces {
		b, _ := json.Marshal(t)
		w.Write(b)
		w.WriteByte('\n')
	}
	w.Flush()
	f.Close()
	cmd := exec.Command(bin, "replay", path)
	cmd.Stderr = os.Stderr
	done := make(chan struct{})
	var out []byte
	var runErr error
	go func() { out, runErr = cmd.Output(); close(done) }()
	select {
	case <-done:
	case <-time.After(20 * time.Minute):
		cmd.Process.Kill()
		<-done
		c.Cov["conformance"] = "replayer exceeded 20 minutes: inconclusive, 0 traces validated"
		return
	}
	var s Summary
	if err := json.Unmarshal(out, &s); err != nil {
		c.Cov["conformance"] = fmt.Sprintf("replayer produced no summary (%v): inconclusive", runErr)
		return
	}
	c.Cov["traces_validated_against_impl"] = s.Validated
	c.Cov["conformance"] = map[string]interface{}{
		"traces_exported": s.Traces, "validated_on_real_stack": s.Validated, "inconclusive": s.Inconclusive,
		"disagreements": len(s.Disagreements), "real_clusters_started": s.Clusters, "wall_s": s.WallS,
		"how": "each trace carries the observations of the simulated run and is replayed on the unmodified stack (no build tag, no overlay; olric.New+Start, loopback TCP, real memberlist, real clock): client traces through the public API (every step's error class / value / count must match), pub/sub traces through go-redis PubSub connections (PUBLISH reply, copies received per connection, CHANNELS/NUMSUB/NUMPAT after every step), membership traces with child-process members under the same addresses (join, SIGTERM, SIGKILL; the routing table the real cluster settles on after every event must equal the simulated one)",
	}
	for _, d := range s.Disagreements {
		fmt.Printf("CONFORMANCE-DISAGREEMENT property=%s (harness stand-in differs from the real stack; not a property verdict): %s\n", c.ID, d)
	}
	if len(s.Disagreements) > 0 {
		c.Cov["conformance_disagreements"] = s.Disagreements
	}
}
