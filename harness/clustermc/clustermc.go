// Package clustermc is engine E2: explicit-state breadth-first search over a simulated cluster of
// real olric members. A state is the event path that reaches it; a successor is "fresh system,
// replay the path, apply one more event"; states are de-duplicated on a canonical abstract state.
// The search is level-synchronous: the parent owns the seen-set, worker processes expand chunks of
// the frontier.
package clustermc

import (
	"encoding/json"
	"fmt"
	"strings"
	"time"

	"github.com/olric-data/olric/internal/verif/core"
)

// Ev is one transition label (serialisable so that paths can travel to worker processes).
type Ev struct {
	K string `json:"k"`           // kind
	A int    `json:"a,omitempty"` // small integer arguments (member / client / key / option index)
	B int    `json:"b,omitempty"`
	C int    `json:"c,omitempty"`
	S string `json:"s,omitempty"`
}

func (e Ev) String() string {
	s := e.K
	if e.S != "" {
		s += ":" + e.S
	}
	return fmt.Sprintf("%s(%d,%d,%d)", s, e.A, e.B, e.C)
}

func PathString(p []Ev, name func(Ev) string) string {
	var s []string
	for _, e := range p {
		if name != nil {
			s = append(s, name(e))
		} else {
			s = append(s, e.String())
		}
	}
	return strings.Join(s, " ; ")
}

type Fail struct {
	Key  string
	What string
}

// Spec describes one search space.
type Spec struct {
	Name string
	// New builds the initial system (cluster + reference model).
	New func() interface{}
	// Events lists the events enabled in the state (finite menu, simplest first).
	Events func(s interface{}) []Ev
	// Apply runs the event on the real system and the reference model; step-level disagreements
	// are returned.
	Apply func(s interface{}, e Ev) []Fail
	// Check evaluates the state oracle. It may perturb the system: it is always run on a replay
	// that is thrown away afterwards.
	Check func(s interface{}) []Fail
	// Canon returns the canonical key of the state (after Apply, before Check).
	Canon func(s interface{}) string
	// Describe renders an event for reports.
	Describe func(e Ev) string
	Depth    int
	// NonTrivial classifies a state for the evidence counts.
	NonTrivial func(s interface{}) bool
	Situations func(s interface{}, add func(string))
}

var Specs = map[string]func(tier string) []*Spec{}

type succ struct {
	Ev    Ev       `json:"e"`
	Key   string   `json:"k"`
	Fails []Fail   `json:"f,omitempty"`
	NonTr bool     `json:"n,omitempty"`
	Sits  []string `json:"s,omitempty"`
}

type expandParams struct {
	Family string `json:"family"`
	Tier   string `json:"tier"`
	Spec   int    `json:"spec"`
	Paths  [][]Ev `json:"paths"`
}

type expandResult struct {
	Succs [][]succ // per path
}

func replay(sp *Spec, path []Ev) (interface{}, []Fail) {
	s := sp.New()
	for _, e := range path {
		if fs := sp.Apply(s, e); len(fs) > 0 {
			return s, fs
		}
	}
	return s, nil
}

func expand(sp *Spec, path []Ev) []succ {
	s, fs := replay(sp, path)
	if len(fs) > 0 {
		panic(fmt.Sprintf("clustermc: replay divergence on an accepted path %v: %v", path, fs))
	}
	evs := sp.Events(s)
	var out []succ
	for _, e := range evs {
		s2, fs := replay(sp, path)
		if len(fs) > 0 {
			panic("clustermc: replay divergence")
		}
		sc := succ{Ev: e}
		sc.Fails = sp.Apply(s2, e)
		if len(sc.Fails) == 0 {
			sc.Key = sp.Canon(s2)
			if sp.NonTrivial != nil {
				sc.NonTr = sp.NonTrivial(s2)
			}
			if sp.Situations != nil {
				sp.Situations(s2, func(x string) { sc.Sits = append(sc.Sits, x) })
			}
			if sp.Check != nil {
				sc.Fails = sp.Check(s2)
			}
		}
		out = append(out, sc)
	}
	return out
}

func init() {
	core.RegisterJob("expand", func(raw json.RawMessage) (interface{}, error) {
		var p expandParams
		if err := json.Unmarshal(raw, &p); err != nil {
			return nil, err
		}
		sp := Specs[p.Family](p.Tier)[p.Spec]
		var r expandResult
		for _, path := range p.Paths {
			r.Succs = append(r.Succs, expand(sp, path))
		}
		return r, nil
	})
}

type Totals struct {
	States, Transitions, NonTrivial int
	Exhaustive                      bool
	Bounds                          []string
}

// RunFamily runs the BFS of every spec of the family and folds results into the context.
func RunFamily(c *core.Ctx, family string) Totals {
	specs := Specs[family](c.Tier)
	var tot Totals
	tot.Exhaustive = true
	for si, sp := range specs {
		seen := map[string]bool{}
		root, _ := replay(sp, nil)
		seen[sp.Canon(root)] = true
		if sp.Check != nil {
			for _, f := range sp.Check(root) {
				c.Violate(fmt.Sprintf("%s/%s/%s", c.ID, sp.Name, f.Key), fmt.Sprintf("[%s] initial state: %s", sp.Name, f.What), map[string]interface{}{"family": family, "spec": si, "path": []Ev{}})
			}
		}
		states, trans, nontr := 1, 0, 0
		frontier := [][]Ev{nil}
		var perDepth []int
		capped := ""
		depthDone := 0
		for d := 0; d < sp.Depth && len(frontier) > 0; d++ {
			if c.TimeUp() {
				capped = fmt.Sprintf("time budget reached before depth %d", d+1)
				break
			}
			// chunk the frontier
			chunk := len(frontier)/(core.Workers()*4) + 1
			if chunk > 64 {
				chunk = 64
			}
			var params []interface{}
			var chunks [][][]Ev
			for i := 0; i < len(frontier); i += chunk {
				j := i + chunk
				if j > len(frontier) {
					j = len(frontier)
				}
				params = append(params, expandParams{family, c.Tier, si, frontier[i:j]})
				chunks = append(chunks, frontier[i:j])
			}
			results := make([]*expandResult, len(params))
			core.RunJobs("expand", params, 10*time.Minute, func(idx int, res json.RawMessage, crash string) {
				if crash != "" {
					c.Violate(fmt.Sprintf("%s/%s/worker-crash", c.ID, sp.Name), "expansion worker failed: "+crash+" on paths starting with "+PathString(chunks[idx][0], sp.Describe), chunks[idx])
					return
				}
				var r expandResult
				json.Unmarshal(res, &r)
				results[idx] = &r
			})
			var next [][]Ev
			for ci, r := range results {
				if r == nil {
					continue
				}
				for pi, succs := range r.Succs {
					path := chunks[ci][pi]
					for _, sc := range succs {
						trans++
						np := append(append(make([]Ev, 0, len(path)+1), path...), sc.Ev)
						if len(sc.Fails) > 0 {
							for _, f := range sc.Fails {
								c.Violate(fmt.Sprintf("%s/%s/%s", c.ID, sp.Name, f.Key), fmt.Sprintf("[%s] path: %s => %s", sp.Name, PathString(np, sp.Describe), f.What),
									map[string]interface{}{"family": family, "tier": c.Tier, "spec": si, "path": np, "path_text": PathString(np, sp.Describe)})
							}
							continue // do not expand beyond a violating state
						}
						if seen[sc.Key] {
							continue
						}
						seen[sc.Key] = true
						states++
						if sc.NonTr {
							nontr++
						}
						for _, x := range sc.Sits {
							c.Situation(x)
						}
						next = append(next, np)
						if len(np) == sp.Depth || states%997 == 0 {
							c.Sample(fmt.Sprintf("[%s] %s", sp.Name, PathString(np, sp.Describe)))
						}
					}
				}
			}
			perDepth = append(perDepth, len(next))
			frontier = next
			depthDone = d + 1
		}
		b := fmt.Sprintf("%s: depth %d of %d completed, %d states, %d transitions, new states per depth %v", sp.Name, depthDone, sp.Depth, states, trans, perDepth)
		if len(frontier) == 0 && capped == "" {
			b += " (closed: no new states)"
		}
		if capped != "" {
			b += " CAPPED: " + capped
			tot.Exhaustive = false
		}
		tot.Bounds = append(tot.Bounds, b)
		tot.States += states
		tot.Transitions += trans
		tot.NonTrivial += nontr
	}
	add := func(k string, v int) {
		if old, ok := c.Cov[k].(int); ok {
			v += old
		}
		c.Cov[k] = v
	}
	add("states", tot.States)
	add("transitions", tot.Transitions)
	add("evaluations", tot.Transitions)
	add("distinct_nontrivial", tot.NonTrivial)
	if old, ok := c.Cov["bounds_completed"].([]string); ok {
		c.Cov["bounds_completed"] = append(old, tot.Bounds...)
	} else {
		c.Cov["bounds_completed"] = tot.Bounds
	}
	if ex, ok := c.Cov["exhaustive"].(bool); !ok || ex {
		c.Cov["exhaustive"] = tot.Exhaustive
	}
	return tot
}

// ReplayPath re-runs one recorded path and returns the failures (step + state oracle).
func ReplayPath(family, tier string, spec int, path []Ev) []Fail {
	sp := Specs[family](tier)[spec]
	s, fs := replay(sp, path)
	if len(fs) > 0 {
		return fs
	}
	if sp.Check != nil {
		return sp.Check(s)
	}
	return nil
}

func init() {
	core.Replayers = append(core.Replayers, func(id string, raw json.RawMessage) (bool, []string) {
		var r struct {
			Family string `json:"family"`
			Tier   string `json:"tier"`
			Spec   *int   `json:"spec"`
			Path   []Ev   `json:"path"`
		}
		if json.Unmarshal(raw, &r) != nil || r.Family == "" || r.Spec == nil || Specs[r.Family] == nil {
			return false, nil
		}
		if r.Tier == "" {
			r.Tier = "quick"
		}
		var out []string
		for _, f := range ReplayPath(r.Family, r.Tier, *r.Spec, r.Path) {
			out = append(out, f.Key+": "+f.What)
		}
		return true, out
	})
}
