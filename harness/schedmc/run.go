package schedmc

import (
	"encoding/json"
	"fmt"
	"sort"
	"strings"
	"time"

	"github.com/olric-data/olric/internal/verif/core"
)

// Families maps a family name to the generator of its programs (same list in parent and workers).
var Families = map[string]func(tier string) []*Program{}

type jobParams struct {
	Family   string `json:"family"`
	Tier     string `json:"tier"`
	Prog     int    `json:"prog"`
	Bound    int    `json:"bound"`
	Shard    int    `json:"shard"`
	NShards  int    `json:"nshards"`
	MaxExecs int    `json:"max_execs"`
}

type jobResult struct {
	Prog       int
	Name       string
	Execs      int
	Points     int
	MaxPoints  int
	Conflicts  int
	Capped     bool
	Outcomes   map[string]int
	Violations []Violation
}

func init() {
	core.RegisterJob("sched", func(raw json.RawMessage) (interface{}, error) {
		var p jobParams
		if err := json.Unmarshal(raw, &p); err != nil {
			return nil, err
		}
		progs := Families[p.Family](p.Tier)
		pr := progs[p.Prog]
		st := Explore(pr, p.Bound, p.Shard, p.NShards, p.MaxExecs)
		return jobResult{p.Prog, pr.Name, st.Execs, st.Points, st.MaxPoints, st.Conflicts, st.Capped, st.Outcomes, st.Violations}, nil
	})
}

// RunFamily explores every program of a family with the given preemption bound on the worker pool
// and folds the results into the check context.
func RunFamily(c *core.Ctx, family string, bound, shardsPerProg, maxExecsPerJob int) {
	progs := Families[family](c.Tier)
	var params []interface{}
	for i := range progs {
		for s := 0; s < shardsPerProg; s++ {
			params = append(params, jobParams{family, c.Tier, i, bound, s, shardsPerProg, maxExecsPerJob})
		}
	}
	execs, points, conflicts, maxPts := 0, 0, 0, 0
	capped := false
	outcomesPerProg := map[int]map[string]bool{}
	single := 0
	done, watchdog := 0, 0
	core.RunJobsUntil("sched", params, 20*time.Minute, func(idx int, res json.RawMessage, crash string) {
		done++
		jp := params[idx].(jobParams)
		if strings.HasPrefix(crash, "no result within") {
			// the exploration of this (program, shard) outlived the per-job watchdog: that is a
			// limit of coverage, not an observation about olric (an execution that does not end is
			// caught inside the explorer by the step horizon and reported as such)
			capped = true
			watchdog++
			return
		}
		if crash != "" {
			c.Violate(fmt.Sprintf("%s/%s/worker-crash", c.ID, progs[jp.Prog].Name), "exploration worker failed: "+crash, jp)
			return
		}
		var r jobResult
		json.Unmarshal(res, &r)
		execs += r.Execs
		points += r.Points
		conflicts += r.Conflicts
		if r.MaxPoints > maxPts {
			maxPts = r.MaxPoints
		}
		capped = capped || r.Capped
		if outcomesPerProg[r.Prog] == nil {
			outcomesPerProg[r.Prog] = map[string]bool{}
		}
		for o := range r.Outcomes {
			outcomesPerProg[r.Prog][o] = true
		}
		for _, v := range r.Violations {
			c.Violate(fmt.Sprintf("%s/%s", c.ID, v.Key), fmt.Sprintf("program %s: %s | history: %s", r.Name, v.What, v.Hist),
				map[string]interface{}{"family": family, "tier": c.Tier, "prog": r.Prog, "program": r.Name, "choices": v.Choices, "history": v.Hist})
		}
	}, c.TimeUp)
	if done < len(params) {
		capped = true
		c.Cov["time_budget"] = fmt.Sprintf("time budget reached: %d of %d (program, shard) jobs explored completely, the others not started", done, len(params))
	}
	distinct := 0
	var names []string
	for i, p := range progs {
		n := len(outcomesPerProg[i])
		distinct += n
		if n <= 1 {
			single++
		}
		names = append(names, p.Name)
	}
	sort.Strings(names)
	for i := 0; i < len(names) && i < 6; i++ {
		c.Sample("program: " + names[i])
	}
	for i, p := range progs {
		if len(outcomesPerProg[i]) > 1 && i%7 == 0 {
			var os []string
			for o := range outcomesPerProg[i] {
				os = append(os, o)
			}
			sort.Strings(os)
			c.Sample(map[string]interface{}{"program": p.Name, "distinct_outcomes": os})
		}
	}
	add := func(k string, v int) {
		if old, ok := c.Cov[k].(int); ok {
			v += old
		}
		c.Cov[k] = v
	}
	add("programs", len(progs))
	add("evaluations", execs)
	add("transitions", points)
	add("states", execs) // stateless search: every execution is a distinct schedule (choice vector)
	add("distinct_nontrivial", conflicts)
	add("distinct_outcomes_total", distinct)
	add("programs_with_single_outcome", single)
	c.Cov["max_points_per_execution"] = maxPts
	c.Cov["preemption_bound_completed"] = bound
	if capped {
		c.Cov["preemption_bound_completed"] = fmt.Sprintf("bound %d attempted and NOT completed for every program (see capped)", bound)
		c.Cov["exhaustive"] = false
		c.Cov["capped"] = fmt.Sprintf("per-job execution cap %d hit in at least one job", maxExecsPerJob)
		if tb, ok := c.Cov["time_budget"]; ok {
			c.Cov["capped"] = tb
		}
		if watchdog > 0 {
			c.Cov["capped"] = fmt.Sprintf("%v; %d (program, shard) job(s) stopped by the 20-minute per-job watchdog before their exploration was complete", c.Cov["capped"], watchdog)
		}
	} else if _, ok := c.Cov["exhaustive"]; !ok {
		c.Cov["exhaustive"] = true
	}
}

// RunFamilyIter is iterative context bounding under a time budget: first every schedule with at
// most lo preemptions of every program, without an execution cap (the bound that is COMPLETED),
// then the schedules with at most hi preemptions as far as the caps and the time budget allow.
// The evidence says which bound was completed for every program and how far the deeper pass got.
func RunFamilyIter(c *core.Ctx, family string, lo, hi, shardsPerProg, maxExecsPerJob int) {
	RunFamily(c, family, lo, shardsPerProg, 0)
	if c.Cov["exhaustive"] == false || hi <= lo {
		return // not even the lower bound fitted; the evidence already says so
	}
	if c.TimeUp() {
		c.Cov["deeper_bound"] = fmt.Sprintf("bound %d not started: time budget used by bound %d", hi, lo)
		return
	}
	delete(c.Cov, "exhaustive")
	keep := map[string]interface{}{}
	for _, k := range []string{"programs", "programs_with_single_outcome", "distinct_outcomes_total"} {
		keep[k] = c.Cov[k]
	}
	c.Cov["evaluations_at_completed_bound"] = c.Cov["evaluations"]
	RunFamily(c, family, hi, shardsPerProg, maxExecsPerJob)
	for k, v := range keep {
		c.Cov[k] = v // per-program figures are those of the completed pass
	}
	c.Cov["passes"] = fmt.Sprintf("evaluations / transitions / states add the bound-%d pass and the bound-%d pass (which explores the bound-%d schedules again)", lo, hi, lo)
	if c.Cov["exhaustive"] == false {
		c.Cov["deeper_bound"] = fmt.Sprintf("bound %d attempted after bound %d was completed for every program: %v", hi, lo, c.Cov["capped"])
		c.Cov["preemption_bound_completed"] = lo
	}
}

func init() {
	core.Replayers = append(core.Replayers, func(id string, raw json.RawMessage) (bool, []string) {
		var r struct {
			Family  string `json:"family"`
			Tier    string `json:"tier"`
			Prog    *int   `json:"prog"`
			Choices []int  `json:"choices"`
		}
		if json.Unmarshal(raw, &r) != nil || r.Family == "" || r.Prog == nil || Families[r.Family] == nil {
			return false, nil
		}
		key, what, hist, _ := Replay(Families[r.Family](r.Tier)[*r.Prog], r.Choices)
		if key == "" {
			return true, nil
		}
		return true, []string{key + ": " + what + " | history: " + hist}
	})
}
