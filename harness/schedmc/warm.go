package schedmc

import (
	"fmt"
	"time"

	"github.com/olric-data/olric/internal/verif/sched"
	"github.com/olric-data/olric/internal/verif/simcluster"
)

// Warm gives every member a pre-history on OTHER keys of the DMap before the explored part starts:
// requests of every kind that carry options (an expiry, a condition, a timed lock), each on a key
// the member owns. A member that has already served such traffic is the normal case; state that
// leaks from one request into the next (a shared request environment, a cached option) only shows
// on a warm member. Runs with the scheduler inactive.
func Warm(cl *simcluster.Cluster, dmapName string) {
	view := cl.Live()[0]
	for i, m := range cl.Live() {
		m := m
		key := func(tag string) string {
			return cl.FindKey(fmt.Sprintf("warm%d%s-", i, tag), func(k string) bool { return cl.Owner(view, dmapName, k) == m })
		}
		kc, kp, kl, kg := key("c"), key("p"), key("l"), key("g")
		kv, err := cl.Entry("EO", dmapName, kc)
		if err != nil {
			continue
		}
		kv.Incr(kc, 1)
		kv.Expire(kc, 700*time.Millisecond)
		kv.Incr(kc, 1)
		kv.IncrByFloat(kg, 0.5)
		kv.Expire(kg, 900*time.Millisecond)
		kv.IncrByFloat(kg, 0.5)
		kv.Put(kp, []byte("w"), simcluster.PutOpt{PX: 600 * time.Millisecond})
		kv.Put(kp, []byte("w"), simcluster.PutOpt{XX: true, EX: 800 * time.Millisecond})
		kv.GetPut(kp, []byte("w2"))
		if r := kv.Lock(kl, 500*time.Millisecond, 0); r.Err == "" {
			kv.Lease(kl, r.Token, 400*time.Millisecond)
		}
	}
}

// AfterAWhile moves the virtual clock an hour ahead (judges read the final state once right away
// and once after it: nothing the explored calls wrote carries an expiry unless they asked for one).
func AfterAWhile() { sched.AdvanceNS(int64(time.Hour)) }
