// Package schedmc is engine E3: stateless exploration of the interleavings of small concurrent
// client programs on a simulated cluster (real olric members) under the cooperative scheduler.
package schedmc

import (
	"fmt"
	"os"
	"sort"
	"strings"
	gosync "sync"
	"time"

	"github.com/olric-data/olric/internal/verif/sched"
	"github.com/olric-data/olric/internal/verif/simcluster"
)

// Call is one client operation in a recorded history.
type Call struct {
	Thread int
	Op     string // op name
	Arg    string // printable argument
	Inv    int    // logical time of invocation
	Ret    int    // logical time of response (0 = never returned)
	InvNS  int64  // virtual clock at invocation / response
	RetNS  int64
	Res    simcluster.Res
	In     interface{}
}

func (c *Call) String() string {
	r := "pending"
	if c.Ret != 0 {
		r = c.Res.String()
	}
	return fmt.Sprintf("t%d:%s(%s)=%s", c.Thread, c.Op, c.Arg, r)
}

type Hist struct {
	Calls []*Call
	tick  int
	Note  string       // set by the judge: schedule-dependent observation made after the run (final value)
	mu    gosync.Mutex // only contended in the free-running race pass (RunFree)
}

// Do records the invocation, runs f, records the response.
func (h *Hist) Do(thread int, op, arg string, in interface{}, f func() simcluster.Res) simcluster.Res {
	h.mu.Lock()
	h.tick++
	c := &Call{Thread: thread, Op: op, Arg: arg, Inv: h.tick, InvNS: sched.PeekNS(), In: in}
	h.Calls = append(h.Calls, c)
	h.mu.Unlock()
	r := f()
	h.mu.Lock()
	h.tick++
	c.Ret, c.RetNS, c.Res = h.tick, sched.PeekNS(), r
	h.mu.Unlock()
	return r
}

var raceSelfTest = os.Getenv("VERIF_RACE_SELFTEST") != ""
var selfTestCounter int

// RunFree runs the thread bodies of p as plain goroutines, WITHOUT the cooperative scheduler
// (the sync shim falls through to real mutexes). It exists for the race-detector supplement: under
// the cooperative scheduler every hand-off is a happens-before edge, so the race detector sees
// nothing; here it sees the unsynchronised accesses the scheduler cannot. Returns false when the
// threads did not finish within the time limit.
func RunFree(p *Program, limit time.Duration) bool {
	sched.ResetClock()
	cl := simcluster.New(p.Opts)
	if p.Setup != nil {
		p.Setup(cl, p)
	}
	h := &Hist{}
	var wg gosync.WaitGroup
	for i, t := range p.Threads {
		i, t := i, t
		env := &Env{Cl: cl, H: h, Tid: i, Key: p.Key, DMap: p.DMap}
		if t.Entry != "" {
			kv, err := cl.Entry(t.Entry, p.DMap, p.Key)
			if err != nil {
				panic(fmt.Sprintf("entry %s: %v", t.Entry, err))
			}
			env.KV = kv
		}
		wg.Add(1)
		go func() {
			defer wg.Done()
			defer func() { recover() }()
			if raceSelfTest {
				selfTestCounter++ // deliberately unsynchronised: proves the detector is armed
			}
			t.Body(env)
		}()
	}
	done := make(chan struct{})
	go func() { wg.Wait(); close(done) }()
	select {
	case <-done:
		return true
	case <-time.After(limit):
		return false
	}
}

func (h *Hist) String() string {
	cs := append([]*Call{}, h.Calls...)
	sort.SliceStable(cs, func(i, j int) bool { return cs[i].Inv < cs[j].Inv })
	var s []string
	for _, c := range cs {
		s = append(s, fmt.Sprintf("[%d,%d]%s", c.Inv, c.Ret, c))
	}
	return strings.Join(s, " ")
}

// Outcome is the schedule-independent summary of a history (results per thread in program order).
func (h *Hist) Outcome() string {
	per := map[int][]string{}
	var ths []int
	for _, c := range h.Calls {
		if _, ok := per[c.Thread]; !ok {
			ths = append(ths, c.Thread)
		}
		r := "pending"
		if c.Ret != 0 {
			r = c.Res.String()
		}
		per[c.Thread] = append(per[c.Thread], r)
	}
	sort.Ints(ths)
	var s []string
	for _, t := range ths {
		s = append(s, fmt.Sprintf("t%d:%s", t, strings.Join(per[t], ",")))
	}
	if h.Note != "" {
		s = append(s, h.Note)
	}
	return strings.Join(s, " ")
}

// Model is a sequential specification: Step applies a call to a state and says whether the
// recorded response is the one the specification gives in that state.
type Model interface {
	Init() string
	Step(state string, c *Call) (next string, ok bool)
}

// Linearizable searches for a total order of the calls, consistent with real-time precedence, in
// which every response agrees with the model. Calls that never returned may take effect at any
// point after their invocation or not at all. Returns the final model states reachable.
func Linearizable(calls []*Call, m Model) (bool, []string) {
	n := len(calls)
	if n > 20 {
		panic("history too long for the brute-force checker")
	}
	type key struct {
		mask  uint32
		state string
	}
	seen := map[key]bool{}
	finals := map[string]bool{}
	full := uint32(1)<<uint(n) - 1
	var rec func(mask uint32, state string) bool
	rec = func(mask uint32, state string) bool {
		if mask == full {
			finals[state] = true
			return true
		}
		k := key{mask, state}
		if seen[k] {
			return false
		}
		seen[k] = true
		// earliest response among the not yet linearised, completed calls
		minRet := int(^uint(0) >> 1)
		for i, c := range calls {
			if mask&(1<<uint(i)) == 0 && c.Ret != 0 && c.Ret < minRet {
				minRet = c.Ret
			}
		}
		ok := false
		for i, c := range calls {
			if mask&(1<<uint(i)) != 0 || c.Inv > minRet {
				continue
			}
			if c.Ret == 0 {
				// pending: either it never takes effect ...
				if rec(mask|1<<uint(i), state) {
					ok = true
				}
			}
			next, good := m.Step(state, c)
			if c.Ret == 0 {
				good = true // ... or it takes effect with whatever response
			}
			if good && rec(mask|1<<uint(i), next) {
				ok = true
			}
		}
		return ok
	}
	ok := rec(0, m.Init())
	var fs []string
	for f := range finals {
		fs = append(fs, f)
	}
	sort.Strings(fs)
	return ok, fs
}

// ---- program runner --------------------------------------------------------------------------

// Env is what a thread body gets.
type Env struct {
	Cl   *simcluster.Cluster
	H    *Hist
	KV   simcluster.KV
	Tid  int
	Key  string
	DMap string
}

type Thread struct {
	Entry string // entry kind (simcluster.EntryKinds) or "" for a background thread
	Body  func(e *Env)
	Name  string
}

type Program struct {
	Name    string
	Opts    simcluster.Opts
	DMap    string
	Key     string
	Setup   func(cl *simcluster.Cluster, p *Program) // pre-history, scheduler inactive
	Threads []Thread
	// Judge inspects the finished execution (scheduler inactive again): history, cluster state.
	Judge func(cl *simcluster.Cluster, h *Hist, x *sched.Exec) (key, what string)
}

type Violation struct {
	Key     string
	What    string
	Choices []int
	Hist    string
}

type Stats struct {
	Execs      int
	Points     int
	MaxPoints  int
	Outcomes   map[string]int
	Capped     bool
	Violations []Violation
	Conflicts  int // executions in which at least one preemption was taken
}

// Explore runs every schedule of p with at most bound preemptions (sharded).
func Explore(p *Program, bound, shard, nshards, maxExecs int) *Stats {
	st := &Stats{Outcomes: map[string]int{}}
	seenViol := map[string]bool{}
	ex := &sched.Explorer{Bound: bound, Shard: shard, NShards: nshards, MaxExecs: maxExecs}
	ex.Mk = func() (*sched.Sched, func(x *sched.Exec)) {
		cl, h, s := Instantiate(p)
		return s, func(x *sched.Exec) {
			defer func() { st.Outcomes[h.Outcome()]++ }()
			if x.Preemptions(len(x.Points)) > 0 {
				st.Conflicts++
			}
			key, what := "", ""
			switch {
			case x.Panic != nil:
				key, what = "panic", fmt.Sprint(x.Panic)
			case x.Deadlock:
				key, what = "deadlock", fmt.Sprintf("no thread can run; blocked: %v", x.Blocked)
			case x.Horizon:
				key, what = "horizon", "execution exceeded the step horizon (livelock?)"
			default:
				key, what = p.Judge(cl, h, x)
			}
			if key != "" && !seenViol[key] {
				seenViol[key] = true
				st.Violations = append(st.Violations, Violation{Key: key, What: what, Choices: append([]int{}, x.Choices...), Hist: h.String()})
			}
		}
	}
	ex.Run()
	st.Execs, st.Points, st.MaxPoints, st.Capped = ex.Execs, ex.Points, ex.MaxPoints, ex.Capped
	return st
}

// Instantiate builds a fresh cluster and scheduler for one execution of p.
func Instantiate(p *Program) (*simcluster.Cluster, *Hist, *sched.Sched) {
	sched.ResetClock()
	cl := simcluster.New(p.Opts)
	if p.Setup != nil {
		p.Setup(cl, p)
	}
	h := &Hist{}
	s := sched.New()
	for i, t := range p.Threads {
		i, t := i, t
		env := &Env{Cl: cl, H: h, Tid: i, Key: p.Key, DMap: p.DMap}
		if t.Entry != "" {
			kv, err := cl.Entry(t.Entry, p.DMap, p.Key)
			if err != nil {
				panic(fmt.Sprintf("entry %s: %v", t.Entry, err))
			}
			env.KV = kv
		}
		name := t.Name
		if name == "" {
			name = fmt.Sprintf("t%d/%s", i, t.Entry)
		}
		s.Go(name, func() { t.Body(env) })
	}
	cl.Quiesce()
	return cl, h, s
}

// Replay runs one recorded schedule and returns the judge's verdict.
func Replay(p *Program, choices []int) (key, what, hist string, x *sched.Exec) {
	cl, h, s := Instantiate(p)
	x = s.Run(choices)
	switch {
	case x.Panic != nil:
		return "panic", fmt.Sprint(x.Panic), h.String(), x
	case x.Deadlock:
		return "deadlock", fmt.Sprintf("blocked: %v", x.Blocked), h.String(), x
	case x.Horizon:
		return "horizon", "", h.String(), x
	}
	key, what = p.Judge(cl, h, x)
	return key, what, h.String(), x
}
