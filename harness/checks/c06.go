package checks

import (
	"encoding/json"
	"fmt"
	"strings"
	"time"

	"github.com/olric-data/olric/internal/cluster/partitions"
	"github.com/olric-data/olric/internal/dmap"
	"github.com/olric-data/olric/internal/kvstore"
	"github.com/olric-data/olric/internal/kvstore/entry"
	"github.com/olric-data/olric/internal/protocol"
	"github.com/olric-data/olric/internal/verif/core"
	"github.com/olric-data/olric/internal/verif/sched"
	"github.com/olric-data/olric/internal/verif/simcluster"
	"github.com/olric-data/olric/internal/verif/simnet"
	"github.com/olric-data/olric/pkg/storage"
	"github.com/tidwall/redcon"
)

// ---- merge part ------------------------------------------------------------------------------

// a version code: 0 absent, 1 ts=1, 2 ts=2 (value A), 3 ts=2 (value B: tie), 4 ts=3
// version codes of a key: 0 absent, 1..4 plain versions (codes 2 and 3 tie on the timestamp),
// 5 the newest version of all, carrying an expiry that has already passed when it is merged
var c06TS = []int64{0, 1, 2, 2, 3, 4}

const c06ExpiredCode = 5

func c06Val(code int) string { return fmt.Sprintf("v%d", code) }

type c06Frag struct{ A, B int } // version codes of keys a and b

func (f c06Frag) String() string { return fmt.Sprintf("{a:%d b:%d}", f.A, f.B) }

type c06MergeCase struct {
	Target c06Frag   `json:"target"`
	Seq    []c06Frag `json:"seq"`
	// Backup: the fragments are BACKUP fragments, delivered to the partition's backup owner (R=2)
	Backup bool `json:"backup,omitempty"`
}

func c06Sources() []c06Frag {
	var out []c06Frag
	for a := 0; a <= 5; a++ {
		for _, b := range []int{0, 2} {
			if a == 0 && b == 0 {
				continue
			}
			out = append(out, c06Frag{a, b})
		}
	}
	return out
}

func c06MergeCases(tier string) []c06MergeCase {
	maxLen := 2
	if tier == "thorough" {
		maxLen = 3
	}
	srcs := c06Sources()
	targets := append([]c06Frag{{0, 0}}, srcs...)
	var out []c06MergeCase
	var rec func(seq []c06Frag)
	rec = func(seq []c06Frag) {
		if len(seq) > 0 {
			for _, t := range targets {
				out = append(out, c06MergeCase{Target: t, Seq: append([]c06Frag{}, seq...)})
				out = append(out, c06MergeCase{Target: t, Seq: append([]c06Frag{}, seq...), Backup: true})
			}
		}
		if len(seq) == maxLen {
			return
		}
		for _, s := range srcs {
			rec(append(seq, s))
		}
	}
	rec(nil)
	return out
}

func c06Entry(key string, code int) storage.Entry {
	e := entry.New()
	e.SetKey(key)
	e.SetValue([]byte(c06Val(code)))
	e.SetTimestamp(c06TS[code])
	if code == c06ExpiredCode {
		e.SetTTL(sched.Base/1e6 - 1000) // one second before the start of the virtual clock: expired
	}
	return e
}

// exportTable builds a real kvstore table holding the fragment's entries and exports it.
func c06Export(f c06Frag, ka, kb string) []byte {
	c := storage.NewConfig(nil)
	c.Add("tableSize", uint64(1<<12))
	c.Add("maxIdleTableTimeout", 15*time.Minute)
	parent, _ := kvstore.New(c)
	child, _ := parent.Fork(nil)
	st := child.(*kvstore.KVStore)
	if f.A != 0 {
		st.Put(partitions.HKey("d", ka), c06Entry(ka, f.A))
	}
	if f.B != 0 {
		st.Put(partitions.HKey("d", kb), c06Entry(kb, f.B))
	}
	data, _, err := st.TransferIterator().Export()
	if err != nil {
		panic(err)
	}
	return data
}

func c06RunMerge(cs c06MergeCase) (string, string) {
	sched.ResetClock()
	opts := simcluster.Opts{N: 1, Replicas: 1, Partitions: 1}
	kind := partitions.PRIMARY
	if cs.Backup {
		opts = simcluster.Opts{N: 2, Replicas: 2, WriteQ: 1, ReadQ: 1, Partitions: 3}
		kind = partitions.BACKUP
	}
	cl := simcluster.New(opts)
	m := cl.Members[0]
	ka, kb, partID := "a", "b", uint64(0)
	if cs.Backup {
		// both keys in one partition, delivered to that partition's backup owner
		partID = cl.PartID("d", ka)
		kb = cl.FindKey("b", func(k string) bool { return cl.PartID("d", k) == partID })
		m = cl.Backups(cl.Live()[0], "d", ka)[0]
	}
	svc := m.DB.VerifDMap()
	if cs.Target.A != 0 {
		svc.VerifInject(kind, "d", partitions.HKey("d", ka), c06Entry(ka, cs.Target.A))
	}
	if cs.Target.B != 0 {
		svc.VerifInject(kind, "d", partitions.HKey("d", kb), c06Entry(kb, cs.Target.B))
	}
	bestA, bestB := c06TS[cs.Target.A], c06TS[cs.Target.B]
	for i, src := range cs.Seq {
		payload, err := dmap.VerifPackFragment(partID, kind, "d", c06Export(src, ka, kb))
		if err != nil {
			panic(err)
		}
		cmd := protocol.NewMoveFragment(payload).Command(bgctx)
		args := [][]byte{}
		for _, a := range cmd.Args() {
			switch v := a.(type) {
			case string:
				args = append(args, []byte(v))
			case []byte:
				args = append(args, v)
			default:
				args = append(args, []byte(fmt.Sprint(v)))
			}
		}
		conn := simnet.NewSrvConn("raw:c06")
		m.DB.VerifServe(conn, redcon.Command{Args: args})
		if reply := string(conn.Bytes()); !strings.HasPrefix(reply, "+OK") {
			return "merge/delivery-rejected", fmt.Sprintf("delivery #%d of %s answered %q", i, src, reply)
		}
		if c06TS[src.A] > bestA {
			bestA = c06TS[src.A]
		}
		if c06TS[src.B] > bestB {
			bestB = c06TS[src.B]
		}
		for _, kb := range []struct {
			k    string
			best int64
		}{{ka, bestA}, {kb, bestB}} {
			cps := cl.Copies("d", kb.k)
			switch {
			case kb.best == 0 && len(cps) != 0:
				return "merge/ghost-key", fmt.Sprintf("key %s appeared although no fragment held it", kb.k)
			case kb.best != 0 && len(cps) != 1:
				return "merge/copy-count", fmt.Sprintf("after delivery #%d key %s has %d copies on the target", i, kb.k, len(cps))
			case kb.best != 0 && cps[0].Timestamp != kb.best:
				return "merge/older-copy-kept", fmt.Sprintf("after delivery #%d of %s key %s has timestamp %d on the target, newest delivered is %d", i, src, kb.k, cps[0].Timestamp, kb.best)
			case kb.best != 0 && !strings.HasPrefix(string(cps[0].Value), "v"):
				return "merge/value-corrupt", fmt.Sprintf("key %s holds %q", kb.k, cps[0].Value)
			}
			if kb.best != 0 {
				kv, kerr := cl.Entry("EO", "d", kb.k)
				if kerr == nil {
					g := kv.Get(kb.k)
					if kb.best == c06TS[c06ExpiredCode] && g.Err != "notfound" {
						return "merge/superseded-version-readable", fmt.Sprintf("after delivery #%d of %s the newest version of key %s is the expired one, Get returns %q err=%q", i, src, kb.k, g.Val, g.Err)
					}
					if kb.best != c06TS[c06ExpiredCode] && g.Err != "" {
						return "merge/newest-version-unreadable", fmt.Sprintf("after delivery #%d of %s Get(%s) fails with %q", i, src, kb.k, g.Err)
					}
				}
				// value must belong to a version with that timestamp
				ok := false
				for code, ts := range c06TS {
					if ts == kb.best && string(cps[0].Value) == c06Val(code) {
						ok = true
					}
				}
				if !ok {
					return "merge/value-timestamp-mismatch", fmt.Sprintf("key %s: value %q with timestamp %d", kb.k, cps[0].Value, cps[0].Timestamp)
				}
			}
		}
	}
	return "", ""
}

// ---- read part -------------------------------------------------------------------------------

type c06ReadCase struct {
	Own, Prev, B1, B2 int // timestamps 0..3 (0 absent)
	RR                bool
	Entry             string
	R                 int
	// Three: the partition has two previous owners (it moved at two successive joins); Prev0 is the
	// copy on the older one, Prev the copy on the more recent one.
	Three bool
	Prev0 int
}

func (c c06ReadCase) String() string {
	if c.Three {
		return fmt.Sprintf("copies{own:%d older-prev-owner:%d recent-prev-owner:%d backup1:%d backup2:%d} read-repair=%v entry=%s R=%d", c.Own, c.Prev0, c.Prev, c.B1, c.B2, c.RR, c.Entry, c.R)
	}
	return fmt.Sprintf("copies{own:%d prev-owner:%d backup1:%d backup2:%d} read-repair=%v entry=%s R=%d", c.Own, c.Prev, c.B1, c.B2, c.RR, c.Entry, c.R)
}

func c06ReadCases(tier string) []c06ReadCase {
	var out []c06ReadCase
	for _, rr := range []bool{false, true} {
		for _, e := range []string{"EO", "EN", "CC"} {
			for own := 0; own <= 3; own++ {
				for prev := 0; prev <= 3; prev++ {
					for b1 := 0; b1 <= 3; b1++ {
						for b2 := 0; b2 <= 3; b2++ {
							if own+prev+b1+b2 == 0 {
								continue
							}
							out = append(out, c06ReadCase{Own: own, Prev: prev, B1: b1, B2: b2, RR: rr, Entry: e, R: 3})
						}
					}
					if own+prev != 0 {
						out = append(out, c06ReadCase{Own: own, Prev: prev, RR: rr, Entry: e, R: 1})
					}
					// two previous owners: all layouts over {owner, older, recent} at R=1, and with the
					// backups at R=3 (thorough: every backup layout; quick: backups absent or equal)
					for p0 := 1; p0 <= 3; p0++ {
						out = append(out, c06ReadCase{Own: own, Prev: prev, Prev0: p0, Three: true, RR: rr, Entry: e, R: 1})
						for b1 := 0; b1 <= 3; b1++ {
							for b2 := 0; b2 <= 3; b2++ {
								if tier != "thorough" && b1 != b2 {
									continue
								}
								out = append(out, c06ReadCase{Own: own, Prev: prev, Prev0: p0, Three: true, B1: b1, B2: b2, RR: rr, Entry: e, R: 3})
							}
						}
					}
				}
			}
		}
	}
	return out
}

func c06RunRead(cs c06ReadCase) (string, string) {
	sched.ResetClock()
	cl := simcluster.New(simcluster.Opts{N: 2, Replicas: cs.R, WriteQ: 1, ReadQ: 1, Partitions: 7, ReadRepair: cs.RR})
	// find a key whose partition moves to the joining member(s) while its old owner(s) keep data
	var keys []string
	for i := 0; i < 60; i++ {
		keys = append(keys, fmt.Sprintf("k%d", i))
	}
	mk := func(key string, ts int) storage.Entry {
		e := entry.New()
		e.SetKey(key)
		e.SetValue([]byte(fmt.Sprintf("val@%d", ts)))
		e.SetTimestamp(int64(ts))
		return e
	}
	// the current owner of every candidate's partition holds a filler so that it stays listed when
	// the partition moves on
	fill := func() {
		for _, k := range keys {
			cl.Owner(cl.Members[0], "d", k).DB.VerifDMap().VerifInject(partitions.PRIMARY, "d", partitions.HKey("d", k), mk(k, 1))
		}
	}
	fill()
	joins := 1
	if cs.Three {
		joins = 2
	}
	for j := 0; j < joins; j++ {
		if _, err := cl.StartMember(2 + j); err != nil {
			return "setup", err.Error()
		}
		cl.DeliverAll()
		cl.Push()
		if j+1 < joins {
			fill()
		}
	}
	var key string
	var chain []*simcluster.Member // owners list of the partition, oldest first, current owner last
	for _, k := range keys {
		owners := cl.Members[0].DB.VerifRT().VerifTable()[cl.PartID("d", k)].Owners
		if len(owners) == joins+1 {
			key = k
			for _, o := range owners {
				chain = append(chain, cl.ByName(o.Name))
			}
			break
		}
	}
	if key == "" {
		return "setup", fmt.Sprintf("no candidate partition with %d listed owners after %d join(s)", joins+1, joins)
	}
	joiner := chain[len(chain)-1]
	prev := chain[len(chain)-2]
	hk := partitions.HKey("d", key)
	// the fillers of this very key go away (other keys keep the previous owners listed and non-empty)
	for _, m := range chain {
		m.DB.VerifDMap().VerifRemove(partitions.PRIMARY, "d", hk)
	}
	backups := cl.Backups(cl.Members[0], "d", key)
	if cs.R == 3 && len(backups) != 2 {
		return "setup", fmt.Sprintf("expected 2 backup owners, got %d", len(backups))
	}
	place := func(m *simcluster.Member, kind partitions.Kind, ts int) {
		if ts != 0 {
			if err := m.DB.VerifDMap().VerifInject(kind, "d", hk, mk(key, ts)); err != nil {
				panic(err)
			}
		}
	}
	place(joiner, partitions.PRIMARY, cs.Own)
	place(prev, partitions.PRIMARY, cs.Prev)
	if cs.Three {
		place(chain[0], partitions.PRIMARY, cs.Prev0)
	}
	if cs.R == 3 {
		place(backups[0], partitions.BACKUP, cs.B1)
		place(backups[1], partitions.BACKUP, cs.B2)
	}
	max := cs.Own
	for _, t := range []int{cs.Prev, cs.Prev0, cs.B1, cs.B2} {
		if t > max {
			max = t
		}
	}
	kv, err := cl.Entry(cs.Entry, "d", key)
	if err != nil {
		return "setup", err.Error()
	}
	r := kv.Get(key)
	sig := fmt.Sprintf("entry=%s/rr=%v", cs.Entry, cs.RR)
	if cs.Three {
		sig += "/two-previous-owners"
	}
	if r.Err != "" {
		return "read/failed/" + sig, fmt.Sprintf("Get failed with %q although a copy exists", r.Err)
	}
	if want := fmt.Sprintf("val@%d", max); string(r.Val) != want {
		return "read/not-newest/" + sig, fmt.Sprintf("Get returned %q, the newest copy is %q", r.Val, want)
	}
	if cs.RR {
		tsOf := func(m *simcluster.Member, kind string) int64 {
			for _, c := range cl.Copies("d", key) {
				if c.Member == m.Name && c.Kind == kind {
					return c.Timestamp
				}
			}
			return 0
		}
		if got := tsOf(joiner, "primary"); got != int64(max) {
			return "read-repair/own-copy-not-updated/" + sig, fmt.Sprintf("after the read the owner's own copy has timestamp %d, winner %d", got, max)
		}
		if cs.R == 3 {
			for i, b := range backups {
				had := []int{cs.B1, cs.B2}[i]
				if had != 0 && had != max {
					if got := tsOf(b, "backup"); got != int64(max) {
						return "read-repair/stale-backup-not-updated/" + sig, fmt.Sprintf("backup %d held timestamp %d, after the read it holds %d, winner %d", i+1, had, got, max)
					}
				}
			}
		}
	}
	return "", ""
}

type c06Job struct {
	Merge []c06MergeCase `json:"merge,omitempty"`
	Read  []c06ReadCase  `json:"read,omitempty"`
}
type c06Res struct {
	Keys  []string
	Whats []string
}

func init() {
	core.RegisterJob("c06", func(raw json.RawMessage) (interface{}, error) {
		var p c06Job
		if err := json.Unmarshal(raw, &p); err != nil {
			return nil, err
		}
		var r c06Res
		for _, cs := range p.Merge {
			k, w := c06RunMerge(cs)
			if k != "" && cs.Backup {
				k += "/backup-fragment"
			}
			r.Keys, r.Whats = append(r.Keys, k), append(r.Whats, w)
		}
		for _, cs := range p.Read {
			k, w := c06RunRead(cs)
			r.Keys, r.Whats = append(r.Keys, k), append(r.Whats, w)
		}
		return r, nil
	})
	core.Register(&core.Check{ID: "C06", Level: "model_checking", Run: func(c *core.Ctx) {
		merges := c06MergeCases(c.Tier)
		reads := c06ReadCases(c.Tier)
		var params []interface{}
		for i := 0; i < len(merges); i += 64 {
			j := i + 64
			if j > len(merges) {
				j = len(merges)
			}
			params = append(params, c06Job{Merge: merges[i:j]})
		}
		for i := 0; i < len(reads); i += 16 {
			j := i + 16
			if j > len(reads) {
				j = len(reads)
			}
			params = append(params, c06Job{Read: reads[i:j]})
		}
		setupFail := 0
		core.RunJobs("c06", params, 10*time.Minute, func(idx int, res json.RawMessage, crash string) {
			jp := params[idx].(c06Job)
			if crash != "" {
				c.Violate("C06/worker-crash", "worker failed: "+crash, nil)
				return
			}
			var r c06Res
			json.Unmarshal(res, &r)
			for i, k := range r.Keys {
				if k == "" {
					continue
				}
				var cs interface{}
				desc := ""
				if i < len(jp.Merge) {
					cs, desc = jp.Merge[i], fmt.Sprintf("target %s, deliveries %v", jp.Merge[i].Target, jp.Merge[i].Seq)
				} else {
					cs, desc = jp.Read[i-len(jp.Merge)], jp.Read[i-len(jp.Merge)].String()
				}
				if k == "setup" {
					setupFail++
					c.Violate("C06/harness-setup", "scenario could not be built: "+r.Whats[i]+" ("+desc+")", cs)
					continue
				}
				c.Violate("C06/"+k, desc+": "+r.Whats[i], cs)
			}
		})
		c.Sample(fmt.Sprintf("merge: target %s deliveries %v", merges[len(merges)/2].Target, merges[len(merges)/2].Seq))
		c.Sample("read: " + reads[len(reads)/3].String())
		c.Cov["states"] = len(merges) + len(reads)
		c.Cov["transitions"] = len(merges)*2 + len(reads)
		c.Cov["evaluations"] = len(merges) + len(reads)
		c.Cov["distinct_nontrivial"] = len(merges) + len(reads)
		c.Cov["merge_cases"] = len(merges)
		c.Cov["read_cases"] = len(reads)
		c.Cov["exhaustive"] = true
		c.Cov["traces_validated_against_impl"] = 0
		c.Cov["rule"] = "merge: every target content x every sequence (with repetition) of fragment deliveries up to the length bound, fragments being real exported kvstore tables over keys {a,b} with timestamps {1,2,2-tie,3}, delivered through the real move-fragment handler; read: every layout of copies over {owner, previous owner, backup 1, backup 2} x timestamps {absent,1,2,3}, and over {owner, older previous owner, more recent previous owner, backups} for a partition that moved at two successive joins (three listed owners) x read-repair on/off x entry point, one Get on a real cluster whose partition was made fragmented by a join"
	}})
}
