package checks

import (
	"fmt"
	"os"
	"sort"
	"strings"
	"time"

	"github.com/olric-data/olric/internal/verif/core"
	"github.com/olric-data/olric/internal/verif/sched"
	"github.com/olric-data/olric/internal/verif/schedmc"
	"github.com/olric-data/olric/internal/verif/simcluster"
)

// lock program step codes:
//
//	L<t>/<d>  Lock with timeout t ms (0 = none) and deadline d ms
//	U         Unlock with the token of this thread's last successful Lock
//	E<t>      Lease own token for t ms
//	S<d>      sleep d ms of virtual time
//	V         Unlock once more with the token this thread has already released (a stale token)
//	W<t>      Lease with that released token
type lockStep struct {
	op      string
	timeout time.Duration
	dl      time.Duration
}

func parseLockProg(s string) []lockStep {
	var out []lockStep
	for _, f := range strings.Fields(s) {
		var a, b int
		switch f[0] {
		case 'L':
			fmt.Sscanf(f[1:], "%d/%d", &a, &b)
			out = append(out, lockStep{"lock", time.Duration(a) * time.Millisecond, time.Duration(b) * time.Millisecond})
		case 'U':
			out = append(out, lockStep{op: "unlock"})
		case 'E':
			fmt.Sscanf(f[1:], "%d", &a)
			out = append(out, lockStep{op: "lease", timeout: time.Duration(a) * time.Millisecond})
		case 'S':
			fmt.Sscanf(f[1:], "%d", &a)
			out = append(out, lockStep{op: "sleep", dl: time.Duration(a) * time.Millisecond})
		case 'V':
			out = append(out, lockStep{op: "stale-unlock"})
		case 'W':
			fmt.Sscanf(f[1:], "%d", &a)
			out = append(out, lockStep{op: "stale-lease", timeout: time.Duration(a) * time.Millisecond})
		}
	}
	return out
}

type lockIn struct {
	timeout, dl time.Duration
	lockCall    *schedmc.Call // for unlock/lease: the Lock call whose token is presented
}

func lockBody(prog string) func(e *schedmc.Env) {
	steps := parseLockProg(prog)
	return func(e *schedmc.Env) {
		var tok, stale []byte
		var last *schedmc.Call
		for _, st := range steps {
			st := st
			switch st.op {
			case "lock":
				r := e.H.Do(e.Tid, "lock", fmt.Sprintf("t=%s,d=%s", st.timeout, st.dl), lockIn{timeout: st.timeout, dl: st.dl}, func() simcluster.Res {
					return e.KV.Lock(e.Key, st.timeout, st.dl)
				})
				if r.Err == "" {
					tok = r.Token
					// this thread's own Lock call (another thread's call may have been recorded
					// between its invocation and its response)
					for i := len(e.H.Calls) - 1; i >= 0; i-- {
						if c := e.H.Calls[i]; c.Thread == e.Tid && c.Op == "lock" {
							last = c
							break
						}
					}
				} else {
					tok, last = nil, nil
				}
			case "unlock":
				if tok == nil {
					continue
				}
				if r := e.H.Do(e.Tid, "unlock", "own", lockIn{lockCall: last}, func() simcluster.Res { return e.KV.Unlock(e.Key, tok) }); r.Err == "" {
					stale = tok
				}
				tok = nil
			case "stale-unlock":
				if stale != nil {
					e.H.Do(e.Tid, "stale-unlock", "released token", lockIn{}, func() simcluster.Res { return e.KV.Unlock(e.Key, stale) })
				}
			case "stale-lease":
				if stale != nil {
					e.H.Do(e.Tid, "stale-lease", st.timeout.String(), lockIn{timeout: st.timeout}, func() simcluster.Res { return e.KV.Lease(e.Key, stale, st.timeout) })
				}
			case "lease":
				if tok == nil {
					continue
				}
				e.H.Do(e.Tid, "lease", st.timeout.String(), lockIn{timeout: st.timeout, lockCall: last}, func() simcluster.Res { return e.KV.Lease(e.Key, tok, st.timeout) })
			case "sleep":
				sched.SleepUntil(sched.PeekNS() + int64(st.dl))
			}
		}
	}
}

const msNS = int64(time.Millisecond)

// judgeLocks evaluates the schedule-independent lock predicates on a recorded history.
func judgeLocks(h *schedmc.Hist, sig string, x *sched.Exec) (string, string) {
	type hold struct {
		c          *schedmc.Call
		from, till int64 // certain-hold interval [latest acquisition, earliest release)
	}
	var holds []hold
	for _, c := range h.Calls {
		if c.Ret == 0 {
			continue
		}
		in := c.In.(lockIn)
		switch c.Op {
		case "stale-unlock", "stale-lease":
			// the token was released by this client's own successful Unlock: it is nobody's
			switch c.Res.Err {
			case "nosuchlock":
			case "":
				return "stale-token-accepted/" + c.Op + "/" + sig, fmt.Sprintf("%s succeeded with a token whose lock this client had already released", c)
			default:
				return "unexpected-error/" + sig, c.Op + " failed: " + c.String()
			}
		case "lock":
			if c.Res.Err == "locknotacquired" {
				if c.RetNS-c.InvNS < int64(in.dl) {
					return "early-failure/" + sig, fmt.Sprintf("%s gave up after %dus, before its deadline %s", c, (c.RetNS-c.InvNS)/1000, in.dl)
				}
				continue
			}
			if c.Res.Err != "" {
				return "unexpected-error/" + sig, "Lock failed: " + c.String()
			}
			till := int64(1) << 62
			if in.timeout != 0 {
				till = c.InvNS + int64(in.timeout) - msNS // ttl is kept in whole milliseconds
			}
			holds = append(holds, hold{c, c.RetNS, till})
		}
	}
	// A timed lock expires no earlier than its timeout after it was TAKEN. It was taken somewhere
	// between the invocation and the response of the Lock call, and not while an earlier holder
	// still held the lock for certain: a Lock that had to wait was taken after that holder's
	// release. (Holds are processed in the order of their acquisition, so that the earlier ones
	// are final.)
	sort.SliceStable(holds, func(i, j int) bool { return holds[i].from < holds[j].from })
	// releases and leases shorten / extend the certain-hold interval of the lock they refer to
	for i := range holds {
		hd := &holds[i]
		if to := hd.c.In.(lockIn).timeout; to != 0 {
			taken := hd.c.InvNS
			for j := 0; j < i; j++ {
				e := holds[j].till
				if e > hd.from {
					e = hd.from
				}
				if holds[j].from < holds[j].till && e > taken {
					taken = e
				}
			}
			hd.till = taken + int64(to) - msNS
		}
		for _, c := range h.Calls {
			in := c.In.(lockIn)
			if in.lockCall != hd.c || c.Ret == 0 {
				continue
			}
			switch c.Op {
			case "unlock":
				if c.Res.Err == "" && c.InvNS < hd.till {
					hd.till = c.InvNS
				}
				if c.Res.Err != "" && c.Res.Err != "nosuchlock" {
					return "unexpected-error/" + sig, "Unlock failed: " + c.String()
				}
				if c.Res.Err == "nosuchlock" && hd.c.In.(lockIn).timeout == 0 && !leased(h, hd.c) {
					return "own-unlock-refused/" + sig, fmt.Sprintf("%s: the untimed lock taken by %s was still held by this client", c, hd.c)
				}
			case "lease":
				if c.Res.Err == "" {
					// from now on the lock expires no earlier than lease invocation + duration
					nt := c.InvNS + int64(in.timeout) - msNS
					if c.RetNS <= hd.till || hd.c.In.(lockIn).timeout == 0 {
						hd.till = nt
					}
				} else if c.Res.Err != "nosuchlock" {
					return "unexpected-error/" + sig, "Lease failed: " + c.String()
				}
			}
		}
	}
	// a Lock may give up only if the key could have been held at every poll: a stretch of 22ms
	// (two poll periods) inside its waiting time during which nobody can possibly hold the lock
	// means "acquirable shortly after release/timeout" is broken.
	// (This clause is about a waiter that polls when it can: executions in which the clock was
	// advanced although a thread could have run - a thread held up for milliseconds between two of
	// its own steps - say nothing about it.)
	starved := false
	if x != nil {
		for _, p := range x.Points {
			if len(p.Enabled) > 1 && p.Enabled[p.Chosen] == sched.TimeID {
				starved = true
			}
		}
	}
	for _, f := range h.Calls {
		if starved || f.Op != "lock" || f.Ret == 0 || f.Res.Err != "locknotacquired" {
			continue
		}
		type iv struct{ a, b int64 }
		var busy []iv
		for _, hd := range holds {
			end := int64(1) << 62
			in := hd.c.In.(lockIn)
			if in.timeout != 0 {
				end = hd.c.RetNS + int64(in.timeout) + msNS
			}
			for _, c := range h.Calls {
				ci := c.In.(lockIn)
				if ci.lockCall != hd.c || c.Ret == 0 || c.Res.Err != "" {
					continue
				}
				if c.Op == "unlock" && c.RetNS < end {
					end = c.RetNS
				}
				if c.Op == "lease" {
					// a successful Lease(d) replaces the expiry by an instant in
					// [invocation+d, response+d] (1ms storage resolution on top)
					end = c.RetNS + int64(ci.timeout) + msNS
				}
			}
			busy = append(busy, iv{hd.c.InvNS, end})
		}
		// pending Lock calls may hold the lock as well
		for _, c := range h.Calls {
			if c.Op == "lock" && c.Ret == 0 {
				busy = append(busy, iv{c.InvNS, int64(1) << 62})
			}
		}
		t := f.InvNS
		for t+22*msNS <= f.RetNS {
			covered := false
			for _, b := range busy {
				if b.a < t+22*msNS && t < b.b {
					covered = true
					if b.b > t {
						t = b.b
					}
					break
				}
			}
			if !covered {
				return "not-acquirable/" + sig, fmt.Sprintf("%s waited during [%d,%d)ms although nobody can have held the lock from %dms on for 22ms", f, f.InvNS/msNS%1e6, f.RetNS/msNS%1e6, t/msNS%1e6)
			}
		}
	}
	if os.Getenv("DBG_HOLDS") != "" {
		for _, hd := range holds {
			fmt.Printf("   hold %s from=%dus till=%dus\n", hd.c, hd.from/1000%1e9, hd.till/1000%1e9)
		}
	}
	// a Lock call that ran entirely inside another holder's certain-hold interval and returned a
	// token took the lock while it was held (this also covers a holder that unlocks at once)
	for i := range holds {
		for j := range holds {
			a, b := holds[i], holds[j]
			if i != j && a.from < a.till && b.c.InvNS >= a.from && b.c.RetNS <= a.till {
				return "acquired-while-held/" + sig, fmt.Sprintf("%s ran during [%d,%d)us and returned a token while %s held the lock for certain during [%d,%d)us", b.c, b.c.InvNS/1000%1e9, b.c.RetNS/1000%1e9, a.c, a.from/1000%1e9, a.till/1000%1e9)
			}
		}
	}
	for i := range holds {
		for j := i + 1; j < len(holds); j++ {
			a, b := holds[i], holds[j]
			if a.from < b.till && b.from < a.till && a.from < a.till && b.from < b.till {
				return "two-holders/" + sig, fmt.Sprintf("%s (held for certain during [%d,%d)us) and %s ([%d,%d)us) overlap", a.c, a.from/1000%1e9, a.till/1000%1e9, b.c, b.from/1000%1e9, b.till/1000%1e9)
			}
		}
	}
	return "", ""
}

func leased(h *schedmc.Hist, lock *schedmc.Call) bool {
	for _, c := range h.Calls {
		if c.Op == "lease" && c.In.(lockIn).lockCall == lock && c.Res.Err == "" {
			return true
		}
	}
	return false
}

func c08Programs(tier string) []*schedmc.Program {
	quick := tier != "thorough"
	progsets := [][]string{
		{"L0/25 U", "L0/25 U"},
		{"L50/0 S20 U", "L0/70 U"},
		{"L50/25", "L50/70 U"},
		{"L0/0 E40", "L0/70 U"},
		{"L50/0 E90 S60 U", "S30 L0/45 U"},
		{"L30/0", "S5 L0/80 U"},
		// a Lease SHORTER than what is left of the lock's timeout: the lock is released at the end
		// of the lease, the waiter gets it then
		{"L200/0 E20", "S5 L0/80 U"},
		// a timed lock that is acquired only after WAITING for the previous holder: its timeout
		// counts from the acquisition (waiting longer than the timeout, and shorter)
		{"L0/0 S40 U S5 L0/20 U", "S2 L30/90"},
		{"L0/0 S20 U S15 L0/10 U", "S2 L30/90"},
	}
	entPairs := [][]string{{"EO", "EO"}, {"EO", "EN"}, {"EN", "EN2"}, {"EN", "CC"}, {"CC", "CC"}, {"RN", "EO"}}
	type cfg struct{ n, r int }
	cfgs := []cfg{{2, 1}}
	if !quick {
		cfgs = append(cfgs, cfg{3, 2}, cfg{1, 1})
		progsets = append(progsets, []string{"L0/25 U", "L0/25 U", "L0/25 U"}, []string{"L50/0", "L50/70", "L0/70 U"}, []string{"L0/25 U L0/25 U", "L0/25 U"})
	}
	var progs []*schedmc.Program
	for _, cf := range cfgs {
		for _, ps := range progsets {
			pairs := entPairs
			if len(ps) == 3 {
				pairs = [][]string{{"EO", "EN", "CC"}, {"EN", "EN2", "RN"}, {"CC", "CC", "EO"}}
			}
			for _, ents := range pairs {
				if cf.n == 1 {
					ok := true
					for _, e := range ents {
						if e != "EO" && e != "CC" {
							ok = false
						}
					}
					if !ok {
						continue
					}
				}
				ps, ents := ps, ents
				p := &schedmc.Program{
					Name: fmt.Sprintf("locks=[%s] N=%d R=%d entries=%s", strings.Join(ps, " || "), cf.n, cf.r, strings.Join(ents, "+")),
					Opts: simcluster.Opts{N: cf.n, Replicas: cf.r, WriteQ: 1, ReadQ: 1, Partitions: 7},
					DMap: "locks", Key: "res",
				}
				for i, e := range ents {
					p.Threads = append(p.Threads, schedmc.Thread{Entry: e, Body: lockBody(ps[i])})
				}
				p.Judge = func(cl *simcluster.Cluster, h *schedmc.Hist, x *sched.Exec) (string, string) {
					sig := fmt.Sprintf("progs=%s/entries=%s", strings.ReplaceAll(strings.Join(ps, "||"), " ", "."), strings.Join(classes(ents), "+"))
					return judgeLocks(h, sig, x)
				}
				progs = append(progs, p)
			}
		}
	}
	// a released token presented again (Unlock, Lease), on replicated clusters with and without
	// read-repair: it is nobody's token, whatever the copies on the backup owners still say
	for _, rr := range []bool{false, true} {
		for _, ps := range [][]string{{"L0/0 U V", "S1 L0/30 U"}, {"L0/0 U W40", "S1 L0/50 U"}, {"L40/0 U V W40", "S1 L0/30"}} {
			for _, ents := range [][]string{{"EO", "EO"}, {"EN", "CC"}} {
				ps, ents := ps, ents
				p := &schedmc.Program{
					Name: fmt.Sprintf("stale token locks=[%s] N=2 R=2 rr=%v entries=%s", strings.Join(ps, " || "), rr, strings.Join(ents, "+")),
					Opts: simcluster.Opts{N: 2, Replicas: 2, WriteQ: 1, ReadQ: 1, Partitions: 7, ReadRepair: rr},
					DMap: "locks", Key: "res",
				}
				for i, e := range ents {
					p.Threads = append(p.Threads, schedmc.Thread{Entry: e, Body: lockBody(ps[i])})
				}
				p.Judge = func(cl *simcluster.Cluster, h *schedmc.Hist, x *sched.Exec) (string, string) {
					sig := fmt.Sprintf("progs=%s/entries=%s/rr=%v", strings.ReplaceAll(strings.Join(ps, "||"), " ", "."), strings.Join(classes(ents), "+"), rr)
					return judgeLocks(h, sig, x)
				}
				progs = append(progs, p)
			}
		}
	}
	return progs
}

// c04ConcPrograms (family "C04conc", run by C04): a lock taken over by a waiting Lock after the
// holder's Lease, on replicated clusters - the one place where a write carries a time stamp older
// than the copy it replaces (a Lock that waits re-tries with the time stamp of its invocation). After
// the run every backup copy of the lock entry must equal the primary copy.
func c04ConcPrograms(tier string) []*schedmc.Program {
	var progs []*schedmc.Program
	for _, ps := range [][]string{{"L30/0 S5 E20", "S2 L0/80"}, {"L30/0 S5 E20", "S2 L60/80 S1 E40"}} {
		for _, ents := range [][]string{{"EO", "EO"}, {"EN", "EO"}, {"CC", "EN"}} {
			ps, ents := ps, ents
			p := &schedmc.Program{
				Name: fmt.Sprintf("take-over after a lease locks=[%s] N=3 R=3 entries=%s", strings.Join(ps, " || "), strings.Join(ents, "+")),
				Opts: simcluster.Opts{N: 3, Replicas: 3, WriteQ: 1, ReadQ: 1, Partitions: 7},
				DMap: "locks", Key: "res",
			}
			for i, e := range ents {
				p.Threads = append(p.Threads, schedmc.Thread{Entry: e, Body: lockBody(ps[i])})
			}
			p.Judge = func(cl *simcluster.Cluster, h *schedmc.Hist, x *sched.Exec) (string, string) {
				sig := fmt.Sprintf("progs=%s/entries=%s", strings.ReplaceAll(strings.Join(ps, "||"), " ", "."), strings.Join(classes(ents), "+"))
				var prim *simcluster.Copy
				cps := cl.Copies("locks", "res")
				for i := range cps {
					if cps[i].Kind == "primary" {
						prim = &cps[i]
					}
				}
				for _, c := range cps {
					if c.Kind != "backup" {
						continue
					}
					switch {
					case prim == nil:
						return "mirror/backup-has-copy-primary-absent/" + sig, fmt.Sprintf("after %s: backup copy on %s, no primary copy", h, c.Member)
					case string(c.Value) != string(prim.Value) || c.TTL != prim.TTL || c.Timestamp != prim.Timestamp:
						return "mirror/backup-differs/" + sig, fmt.Sprintf("after %s: primary copy {ttl %d ts %d}, backup copy on %s {ttl %d ts %d}, same value: %v", h, prim.TTL, prim.Timestamp, c.Member, c.TTL, c.Timestamp, string(c.Value) == string(prim.Value))
					}
				}
				if prim != nil && len(cps) != 3 {
					return "mirror/backup-missing/" + sig, fmt.Sprintf("after %s: %d copies of the lock entry, 3 expected", h, len(cps))
				}
				return "", ""
			}
			progs = append(progs, p)
		}
	}
	return progs
}

// c08LongPrograms: a waiter whose Lock waits for SECONDS (longer than the 3 s read timeout of the
// clients that carry commands between members): holder keeps an untimed lock for 4 s, the waiter
// asks with a 5 s deadline from 2 ms on and must get the lock at about 4 s. Explored at a lower
// preemption bound (every 10 ms poll is a handful of scheduling points, an execution has thousands).
func c08LongPrograms(tier string) []*schedmc.Program {
	var progs []*schedmc.Program
	ps := []string{"L0/0 S4000 U", "S2 L0/5000 U"}
	for _, ents := range [][]string{{"EO", "EN"}, {"EO", "EO"}, {"EN", "EN2"}, {"EO", "CC"}} {
		ents := ents
		p := &schedmc.Program{
			Name: fmt.Sprintf("long wait locks=[%s] N=3 R=1 entries=%s", strings.Join(ps, " || "), strings.Join(ents, "+")),
			Opts: simcluster.Opts{N: 3, Replicas: 1, WriteQ: 1, ReadQ: 1, Partitions: 7},
			DMap: "locks", Key: "res",
		}
		for i, e := range ents {
			p.Threads = append(p.Threads, schedmc.Thread{Entry: e, Body: lockBody(ps[i])})
		}
		p.Judge = func(cl *simcluster.Cluster, h *schedmc.Hist, x *sched.Exec) (string, string) {
			sig := fmt.Sprintf("long-wait/entries=%s", strings.Join(classes(ents), "+"))
			if k, w := judgeLocks(h, sig, x); k != "" {
				return k, w
			}
			// the waiter must have got the lock (the holder released it one second before the deadline)
			for _, c := range h.Calls {
				if c.Thread == 1 && c.Op == "lock" && c.Ret != 0 && c.Res.Err != "" {
					return "long-wait/lock-not-granted/" + sig, fmt.Sprintf("%s: the holder released the lock at 4 s, the waiter's deadline was 5 s", c)
				}
			}
			return "", ""
		}
		progs = append(progs, p)
	}
	return progs
}

func init() {
	schedmc.Families["C08long"] = c08LongPrograms
	schedmc.Families["C04conc"] = c04ConcPrograms
	schedmc.Families["C08"] = c08Programs
	core.Register(&core.Check{ID: "C08", Level: "model_checking", Run: func(c *core.Ctx) {
		bound := 2
		if !c.Quick() {
			bound = 3
		}
		c.Cov["rule"] = "concurrent part: every schedule (thread switches and virtual-clock advances) with at most `preemption_bound_completed` deviations of every lock program (2-3 contenders; Lock with/without timeout and deadline, Unlock, Lease, virtual sleeps; entry-point tuples); oracle on virtual time stamps: certain-hold intervals of different holders never overlap, Lock gives up no earlier than its deadline, own unlock of an untimed lock succeeds; non-trivial = executions with at least one deviation"
		shards, maxExecs := 1, 0
		if c.Tier == "thorough" {
			// heavy programs are split over 4 workers; a (program, shard) exploration that reaches
			// 150000 executions stops there and the check reports exhaustive:false
			shards, maxExecs = 4, 150000
		}
		// the seconds-long wait first (default schedule only in quick, one preemption in thorough),
		// so that the main family cannot use up its time budget
		lb := 0
		if !c.Quick() {
			lb = 1
		}
		schedmc.RunFamily(c, "C08long", lb, shards, maxExecs)
		longOK := c.Cov["exhaustive"] == true
		c.Cov["long_wait_part"] = fmt.Sprintf("a Lock that waits 4 s for its predecessor (5 s deadline) through owner, non-owner and cluster-client paths, preemption bound %d (completed: %v); the clients' 3 s read timeout is modelled on the virtual clock", lb, longOK)
		delete(c.Cov, "exhaustive")
		if c.Tier == "thorough" {
			// bound 2 for every program first (no cap), then bound 3 as far as the budget goes
			schedmc.RunFamilyIter(c, "C08", 2, bound, shards, maxExecs)
		} else {
			schedmc.RunFamily(c, "C08", bound, shards, maxExecs)
		}
		if !longOK {
			c.Cov["exhaustive"] = false
		}
		c.Cov["traces_validated_against_impl"] = 0
		c.Assumef("time is the virtual clock: it advances 1ns per time.Now() and otherwise only by explicit scheduler transitions; ttl resolution is 1ms and the oracle allows that much")
	}})
}
