package checks

import "context"

var bgctx = context.Background()
