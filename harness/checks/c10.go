package checks

import (
	"fmt"
	"sort"
	"strings"
	"time"

	"github.com/olric-data/olric/internal/verif/clustermc"
	"github.com/olric-data/olric/internal/verif/core"
	"github.com/olric-data/olric/internal/verif/sched"
	"github.com/olric-data/olric/internal/verif/simcluster"
)

// C10: eviction bounds (LRU with MaxKeys / MaxInuse) and idle eviction.

type c10Params struct {
	Name     string
	Opts     simcluster.Opts
	Keys     []string
	Depth    int
	Idle     bool
	EntryLen int // bytes one stored entry occupies (MaxInuse configs)
	// Sealed: the initial state already holds every key, in a table that is no longer the active
	// one (the keys were written, then neighbours rolled the partition on to another table)
	Sealed bool
	// Mirror: replicated configuration; after every step every backup copy must mirror the primary
	// copy (C04's clause for evictions caused by a limit)
	Mirror bool
}

type c10Sys struct {
	P  *c10Params
	Cl *simcluster.Cluster
	KV simcluster.KV
	// idle part: virtual ms of the last touch per key (0 = never written / deleted)
	Touched map[string]int64
	Written map[string]bool
	Fills   int
}

const c10Window = 100 * time.Millisecond

func c10New(p *c10Params) *c10Sys {
	sched.ResetClock()
	s := &c10Sys{P: p, Cl: simcluster.New(p.Opts), Touched: map[string]int64{}, Written: map[string]bool{}}
	kv, err := s.Cl.Entry("EO", "d", p.Keys[0])
	if err != nil {
		panic(err)
	}
	s.KV = kv
	if p.Sealed {
		for i := range p.Keys {
			s.Apply(clustermc.Ev{K: "put", A: i})
		}
		s.Apply(clustermc.Ev{K: "fill"})
	}
	return s
}

func (s *c10Sys) describe(e clustermc.Ev) string {
	switch e.K {
	case "tick":
		return fmt.Sprintf("Tick(%dms)", e.B)
	case "evict":
		return "evict"
	case "fill":
		return "Put(4 neighbour keys of the first key's partition)"
	}
	return fmt.Sprintf("%s(%s)", e.K, s.P.Keys[e.A])
}

// bounds checks the per-partition and per-member limits on the white-box state.
func (s *c10Sys) bounds(after string) []clustermc.Fail {
	var fs []clustermc.Fail
	o := s.P.Opts
	for _, m := range s.Cl.Live() {
		owned := int(m.DB.VerifRT().OwnedPartitionCount())
		if owned == 0 {
			continue
		}
		total, inuse := 0, 0
		_ = inuse
		for _, f := range m.DB.VerifDMap().VerifFragments() {
			if f.Kind != "primary" || f.Name != "dmap.d" {
				continue
			}
			// measured on the decoded entries of the tables, not taken from the store's own statistics
			// (the numbers the eviction itself relies on)
			length, used := len(f.Entries), 0
			for _, e := range f.Entries {
				used += 29 + len(e.Key) + len(e.Value)
			}
			if length != f.Stats.Length || used != f.Stats.Inuse {
				fs = append(fs, clustermc.Fail{Key: "stats-differ-from-stored-entries", What: fmt.Sprintf("after %s: member %s partition %d stores %d entries / %d bytes, its statistics say %d entries / %d bytes in use", after, m.Name, f.PartID, length, used, f.Stats.Length, f.Stats.Inuse)})
			}
			total += length
			inuse += used
			if o.MaxKeys > 0 {
				share := o.MaxKeys / owned
				if share < 1 {
					share = 1
				}
				if length > share {
					fs = append(fs, clustermc.Fail{Key: "maxkeys/partition-over-share", What: fmt.Sprintf("after %s: member %s partition %d holds %d keys, its share is %d (MaxKeys=%d, %d owned partitions)", after, m.Name, f.PartID, length, share, o.MaxKeys, owned)})
				}
			}
			if o.MaxInuse > 0 {
				share := o.MaxInuse / owned
				if used > share+s.P.EntryLen {
					fs = append(fs, clustermc.Fail{Key: "maxinuse/partition-over-share", What: fmt.Sprintf("after %s: member %s partition %d uses %d bytes, share %d + one entry (%d)", after, m.Name, f.PartID, used, share, s.P.EntryLen)})
				}
			}
		}
		if o.MaxKeys > 0 {
			limit := o.MaxKeys
			if owned > limit {
				limit = owned
			}
			if total > limit {
				fs = append(fs, clustermc.Fail{Key: "maxkeys/member-over-bound", What: fmt.Sprintf("after %s: member %s holds %d keys, bound %d (MaxKeys=%d, %d owned partitions)", after, m.Name, total, limit, o.MaxKeys, owned)})
			}
		}
	}
	return fs
}

// mirror: every key is either absent everywhere or stored as one primary copy with identical backup
// copies (value, timestamp) on every listed backup owner.
func (s *c10Sys) mirror(after string) []clustermc.Fail {
	var fs []clustermc.Fail
	view := s.Cl.Live()[0]
	for _, k := range s.P.Keys {
		var prim *simcluster.Copy
		cps := s.Cl.Copies("d", k)
		for i := range cps {
			if cps[i].Kind == "primary" {
				prim = &cps[i]
			}
		}
		backups := map[string]bool{}
		for _, b := range s.Cl.Backups(view, "d", k) {
			backups[b.Name] = true
		}
		seen := map[string]bool{}
		for _, c := range cps {
			if c.Kind != "backup" {
				continue
			}
			seen[c.Member] = true
			switch {
			case prim == nil:
				fs = append(fs, clustermc.Fail{Key: "mirror/backup-has-copy-primary-absent", What: fmt.Sprintf("%s: key %s is gone from the primary copy (evicted to keep the limit) but member %s still holds a backup copy %q", after, k, c.Member, c.Value)})
			case string(c.Value) != string(prim.Value) || c.Timestamp != prim.Timestamp:
				fs = append(fs, clustermc.Fail{Key: "mirror/backup-differs", What: fmt.Sprintf("%s: key %s: backup copy on %s is %q@%d, primary copy %q@%d", after, k, c.Member, c.Value, c.Timestamp, prim.Value, prim.Timestamp)})
			}
		}
		if prim != nil {
			for b := range backups {
				if !seen[b] {
					fs = append(fs, clustermc.Fail{Key: "mirror/backup-missing", What: fmt.Sprintf("%s: key %s has a primary copy but the listed backup owner %s holds none", after, k, b)})
				}
			}
		}
	}
	return fs
}

func (s *c10Sys) Apply(e clustermc.Ev) []clustermc.Fail {
	var fs []clustermc.Fail
	now := sched.PeekNS() / 1e6
	switch e.K {
	case "tick":
		sched.AdvanceNS(int64(e.B) * 1e6)
	case "evict":
		// enough passes for every key of every partition to be looked at
		for pass := 0; pass < 3; pass++ {
			for _, m := range s.Cl.Live() {
				for part := uint64(0); part < s.Cl.O.Partitions; part++ {
					m.DB.VerifDMap().VerifEvictAll(part)
				}
			}
		}
		if s.P.Idle {
			now = sched.PeekNS() / 1e6
			for _, k := range s.P.Keys {
				if !s.Written[k] {
					continue
				}
				fresh := now-s.Touched[k] < c10Window.Milliseconds()
				present := len(s.Cl.Copies("d", k)) > 0
				if fresh && !present {
					fs = append(fs, clustermc.Fail{Key: "idle/fresh-key-evicted", What: fmt.Sprintf("key %s was touched %dms ago (window %s) but an eviction pass removed it", k, now-s.Touched[k], c10Window)})
				}
				if !fresh && now-s.Touched[k] > c10Window.Milliseconds() && present {
					fs = append(fs, clustermc.Fail{Key: "idle/stale-key-survives-eviction", What: fmt.Sprintf("key %s was last touched %dms ago (window %s) and is still stored after three full eviction passes", k, now-s.Touched[k], c10Window)})
				}
				if !present {
					s.Written[k] = false
				}
			}
		}
	case "put":
		k := s.P.Keys[e.A]
		opt := simcluster.PutOpt{}
		if e.B == 1 {
			// an expiry far beyond the idle window: the key is still subject to the window
			opt.EX = time.Hour
		}
		r := s.KV.Put(k, []byte("0123456789"), opt)
		if r.Err != "" {
			fs = append(fs, clustermc.Fail{Key: "put-failed/" + strings.SplitN(r.Err, ":", 2)[0], What: fmt.Sprintf("Put(%s) failed with %q although only an eviction limit is in the way", k, r.Err)})
			return fs
		}
		s.Touched[k], s.Written[k] = now, true
		if g := s.KV.Get(k); g.Err != "" || string(g.Val) != "0123456789" {
			fs = append(fs, clustermc.Fail{Key: "just-written-key-unreadable", What: fmt.Sprintf("Get(%s) right after its Put returned %q err=%q", k, g.Val, g.Err)})
		}
		s.Touched[k] = sched.PeekNS() / 1e6
		fs = append(fs, s.bounds(s.describe(e))...)
		if s.P.Mirror {
			fs = append(fs, s.mirror("after "+s.describe(e))...)
		}
	case "fill":
		// neighbours roll the partition's storage on to another table: the keys written before sit
		// in a sealed table from now on
		part := s.Cl.PartID("d", s.P.Keys[0])
		n := 0
		s.Cl.FindKey(fmt.Sprintf("fill%d-", s.Fills), func(k string) bool {
			if s.Cl.PartID("d", k) == part {
				s.KV.Put(k, []byte("FFFFFFFFFFFFFFFFFFFFFFFFFFFFFF"), simcluster.PutOpt{})
				n++
			}
			return n >= 4
		})
		s.Fills++
	case "get":
		k := s.P.Keys[e.A]
		g := s.KV.Get(k)
		if s.P.Idle && s.Written[k] {
			fresh := now-s.Touched[k] < c10Window.Milliseconds()
			if fresh && g.Err != "" {
				fs = append(fs, clustermc.Fail{Key: "idle/fresh-key-unreadable", What: fmt.Sprintf("key %s was touched %dms ago (window %s) but Get returns %q", k, now-s.Touched[k], c10Window, g.Err)})
			}
			// A Get after the window is itself a touch: the statement only says that an *untouched*
			// key eventually disappears (checked after eviction passes), not that this read must fail.
			if g.Err == "" {
				s.Touched[k] = now
			} else if g.Err == "notfound" {
				s.Written[k] = false
			}
		}
	}
	return fs
}

func (s *c10Sys) Canon() string {
	var b strings.Builder
	now := sched.PeekNS() / 1e6
	for _, m := range s.Cl.Live() {
		for _, f := range m.DB.VerifDMap().VerifFragments() {
			if f.Name != "dmap.d" {
				continue
			}
			fmt.Fprintf(&b, "%s%s%d(", m.Name[len(m.Name)-1:], f.Kind[:1], f.PartID)
			// LRU order matters for future evictions: rank keys by last access
			es := append(f.Entries[:0:0], f.Entries...)
			sort.Slice(es, func(i, j int) bool { return es[i].LastAccess < es[j].LastAccess })
			for _, e := range es {
				b.WriteString(e.Key)
				if e.TTL != 0 {
					b.WriteString("*") // carries an expiry of its own
				}
				b.WriteString(",")
			}
			fmt.Fprintf(&b, "t%d)", len(f.Tables))
		}
	}
	if s.P.Idle {
		for _, k := range s.P.Keys {
			if s.Written[k] {
				age := now - s.Touched[k]
				switch {
				case age < c10Window.Milliseconds():
					age = age / 20 // coarse but order preserving inside the window
				default:
					age = 1000
				}
				fmt.Fprintf(&b, "%s@%d;", k, age)
			}
		}
	}
	return b.String()
}

func c10Specs(tier string) []*clustermc.Spec {
	quick := tier != "thorough"
	var out []*clustermc.Spec
	mk := func(p *c10Params) {
		var alpha []clustermc.Ev
		for i := range p.Keys {
			alpha = append(alpha, clustermc.Ev{K: "put", A: i})
		}
		if p.Idle {
			for i := range p.Keys {
				alpha = append(alpha, clustermc.Ev{K: "get", A: i})
			}
			alpha = append(alpha, clustermc.Ev{K: "put", A: 0, B: 1}) // Put with EX 1h
			alpha = append(alpha, clustermc.Ev{K: "tick", B: 60}, clustermc.Ev{K: "tick", B: 120}, clustermc.Ev{K: "evict"})
			if p.Opts.TableSize != 0 && p.Opts.TableSize < 1024 {
				alpha = append(alpha, clustermc.Ev{K: "fill"})
			}
		} else {
			alpha = append(alpha, clustermc.Ev{K: "get", A: 0})
		}
		proto := &c10Sys{P: p}
		out = append(out, &clustermc.Spec{
			Name: p.Name, Depth: p.Depth,
			New:      func() interface{} { return c10New(p) },
			Events:   func(s interface{}) []clustermc.Ev { return alpha },
			Apply:    func(s interface{}, e clustermc.Ev) []clustermc.Fail { return s.(*c10Sys).Apply(e) },
			Canon:    func(s interface{}) string { return s.(*c10Sys).Canon() },
			Describe: proto.describe,
			NonTrivial: func(s interface{}) bool {
				n := 0
				for _, w := range s.(*c10Sys).Written {
					if w {
						n++
					}
				}
				return n >= 2
			},
		})
	}
	keys := []string{"k0", "k1", "k2", "k3"}
	depth := 4
	parts := []uint64{1, 3}
	samples := []int{1, 2, 5}
	ns := []int{1, 2}
	if !quick {
		depth = 5
		parts = []uint64{1, 3, 7}
		keys = append(keys, "k4")
	}
	const entryLen = 29 + 2 + 10
	for _, P := range parts {
		mks := map[int]bool{1: true, 2: true, int(P): true, 2*int(P) + 1: true}
		if P > 1 {
			mks[int(P)-1] = true
		}
		var mkl []int
		for k := range mks {
			if k > 0 {
				mkl = append(mkl, k)
			}
		}
		sort.Ints(mkl)
		for _, n := range ns {
			if P == 1 && n > 1 {
				// buraksezer/consistent panics ("not enough room to distribute partitions") for one
				// partition and two members: not a configuration olric can run; see NOTES-section12.md
				continue
			}
			for _, ls := range samples {
				for _, mkeys := range mkl {
					mk(&c10Params{Name: fmt.Sprintf("MaxKeys=%d P=%d LRUSamples=%d N=%d", mkeys, P, ls, n), Keys: keys, Depth: depth, EntryLen: entryLen,
						Opts: simcluster.Opts{N: n, Partitions: P, LRU: true, MaxKeys: mkeys, LRUSamples: ls}})
				}
				for _, ent := range []int{1, 2} {
					mk(&c10Params{Name: fmt.Sprintf("MaxInuse=%dentries P=%d LRUSamples=%d N=%d", ent, P, ls, n), Keys: keys, Depth: depth, EntryLen: entryLen,
						Opts: simcluster.Opts{N: n, Partitions: P, LRU: true, MaxInuse: ent * entryLen * int(P), LRUSamples: ls}})
				}
			}
		}
	}
	idleDepth := 4
	if !quick {
		idleDepth = 5
	}
	for _, n := range ns {
		mk(&c10Params{Name: fmt.Sprintf("MaxIdleDuration=100ms P=3 N=%d", n), Keys: keys[:2], Depth: idleDepth, Idle: true,
			Opts: simcluster.Opts{N: n, Partitions: 3, MaxIdle: c10Window}})
	}
	// replicated: the backup copy of a key carries no access stamp of its own (PutRaw of the encoded
	// entry), and reads consult it; the window has to be judged on the owner's stamp
	mk(&c10Params{Name: "MaxIdleDuration=100ms P=3 N=2 R=2", Keys: keys[:2], Depth: idleDepth, Idle: true,
		Opts: simcluster.Opts{N: 2, Replicas: 2, WriteQ: 1, ReadQ: 1, Partitions: 3, MaxIdle: c10Window}})
	mk(&c10Params{Name: "MaxIdleDuration=100ms P=3 N=3 R=2 read-repair", Keys: keys[:2], Depth: idleDepth, Idle: true,
		Opts: simcluster.Opts{N: 3, Replicas: 2, WriteQ: 1, ReadQ: 2, Partitions: 3, MaxIdle: c10Window, ReadRepair: true}})
	// the limits given for this one DMap (config.DMaps.Custom) instead of for all DMaps
	mk(&c10Params{Name: "MaxKeys=2 P=3 LRUSamples=5 N=2 per-DMap-config", Keys: keys, Depth: depth, EntryLen: entryLen,
		Opts: simcluster.Opts{N: 2, Partitions: 3, LRU: true, MaxKeys: 2, LRUSamples: 5, Custom: "d"}})
	mk(&c10Params{Name: "MaxInuse=1entries P=3 LRUSamples=2 N=1 per-DMap-config", Keys: keys, Depth: depth, EntryLen: entryLen,
		Opts: simcluster.Opts{N: 1, Partitions: 3, LRU: true, MaxInuse: entryLen * 3, LRUSamples: 2, Custom: "d"}})
	mk(&c10Params{Name: "MaxIdleDuration=100ms P=3 N=2 per-DMap-config", Keys: keys[:2], Depth: idleDepth, Idle: true,
		Opts: simcluster.Opts{N: 2, Partitions: 3, MaxIdle: c10Window, Custom: "d"}})
	// the same with 128-byte tables and a "fill" event: keys that sit in a sealed (non-active) table
	mk(&c10Params{Name: "MaxIdleDuration=100ms P=3 N=1 table=128 keys-in-sealed-table", Keys: keys[:2], Depth: idleDepth, Idle: true, Sealed: true,
		Opts: simcluster.Opts{N: 1, Partitions: 3, MaxIdle: c10Window, TableSize: 128}})
	return out
}

// c04LRUSpecs: the LRU configurations on a replicated cluster, with the mirror oracle (C04: "... or an
// eviction"). Registered as a family of C04.
func c04LRUSpecs(tier string) []*clustermc.Spec {
	var out []*clustermc.Spec
	keys := []string{"k0", "k1", "k2", "k3"}
	depth := 4
	type cf struct {
		n, r, mkeys, inuse int
	}
	cfs := []cf{{2, 2, 3, 0}, {3, 2, 2, 0}, {2, 2, 0, 1}}
	if tier == "thorough" {
		depth = 5
		cfs = append(cfs, cf{3, 3, 3, 0}, cf{3, 2, 7, 0})
	}
	const entryLen = 29 + 2 + 10
	for _, c := range cfs {
		p := &c10Params{Name: fmt.Sprintf("LRU MaxKeys=%d MaxInuse=%dentries P=3 N=%d R=%d", c.mkeys, c.inuse, c.n, c.r), Keys: keys, Depth: depth, EntryLen: entryLen, Mirror: true,
			Opts: simcluster.Opts{N: c.n, Replicas: c.r, WriteQ: 1, ReadQ: 1, Partitions: 3, LRU: true, MaxKeys: c.mkeys, MaxInuse: c.inuse * entryLen * 3, LRUSamples: 2}}
		var alpha []clustermc.Ev
		for i := range p.Keys {
			alpha = append(alpha, clustermc.Ev{K: "put", A: i})
		}
		alpha = append(alpha, clustermc.Ev{K: "get", A: 0})
		proto := &c10Sys{P: p}
		out = append(out, &clustermc.Spec{
			Name: p.Name, Depth: p.Depth,
			New:        func() interface{} { return c10New(p) },
			Events:     func(s interface{}) []clustermc.Ev { return alpha },
			Apply:      func(s interface{}, e clustermc.Ev) []clustermc.Fail { return s.(*c10Sys).Apply(e) },
			Canon:      func(s interface{}) string { return s.(*c10Sys).Canon() },
			Describe:   proto.describe,
			NonTrivial: func(s interface{}) bool { return len(s.(*c10Sys).Written) >= 2 },
		})
	}
	return out
}

func init() {
	clustermc.Specs["C04lru"] = c04LRUSpecs
	clustermc.Specs["C10"] = c10Specs
	core.Register(&core.Check{ID: "C10", Level: "model_checking", Run: func(c *core.Ctx) {
		c.Cov["rule"] = "BFS over Put sequences on 4-5 keys spread over the partitions for every (partition count, MaxKeys incl. values below the partition count, or MaxInuse in entries, LRUSamples, member count) configuration: after every Put the call succeeded, the key is readable, every owned partition holds at most max(1,MaxKeys/owned) keys / its byte share plus one entry and the member at most max(MaxKeys,owned) keys (white-box); idle part: BFS over {Put, Get, Tick 60ms, Tick 120ms, eviction passes} with MaxIdleDuration 100ms on the virtual clock; non-trivial = distinct states with at least two keys written"
		clustermc.RunFamily(c, "C10")
		c.Cov["traces_validated_against_impl"] = 0
		c.Assumef("entries are equally sized (2-byte keys, 10-byte values); 'eventually disappears' is read as: gone after three full eviction passes over every partition")
	}})
}
