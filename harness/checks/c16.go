package checks

import (
	"bytes"
	"encoding/json"
	"fmt"
	"sort"
	"strings"
	"time"

	"github.com/olric-data/olric/internal/verif/core"
	"github.com/olric-data/olric/internal/verif/sched"
	"github.com/olric-data/olric/internal/verif/simcluster"
	"github.com/olric-data/olric/internal/verif/simnet"
	"github.com/tidwall/redcon"
)

// C16: whatever a client sends, the member neither terminates nor spins: it replies and keeps serving.
// Engine E4: exhaustive enumeration of argument vectors over a token alphabet for every registered
// command, executed through the real command multiplexer; short RESP frames through redcon's parser.

var c16Tokens = []string{"", "0", "1", "-1", "7", "18446744073709551615", "99999999999999999999", "1.5", "abc", "d", "k",
	"NX", "nx", "XX", "EX", "PX", "EXAT", "PXAT", "MATCH", "COUNT", "RC", "RW", "LC", "\x00\xff\r\n"}

type c16Batch struct {
	Cmd    string `json:"cmd"`   // registered command name (may be two words)
	From   int    `json:"from"`  // first vector index
	Count  int    `json:"count"` // number of vectors
	MaxLen int    `json:"max_len"`
	Upper  bool   `json:"upper"`
	N      int    `json:"n"`
	Frames bool   `json:"frames,omitempty"`
	// Prefix: plausible positional arguments placed before the enumerated vector, so that
	// "valid request + option keyword without its value / unknown option" is reached with short vectors
	Prefix []string `json:"prefix,omitempty"`
}

type c16Fail struct {
	Key    string
	What   string
	Vector []string
}

type c16Res struct {
	Vectors int
	Replies map[string]int // reply class -> count (vacuity guard)
	Fails   []c16Fail
}

// vector decodes index i into an argument vector: lengths 0..maxLen, lexicographic within a length.
func c16Vector(i, maxLen int) []string {
	nt := len(c16Tokens)
	size := 1
	for l := 0; l <= maxLen; l++ {
		if i < size {
			v := make([]string, l)
			for p := l - 1; p >= 0; p-- {
				v[p] = c16Tokens[i%nt]
				i /= nt
			}
			return v
		}
		i -= size
		size *= nt
	}
	return nil
}

func c16Total(maxLen int) int {
	t, size := 0, 1
	for l := 0; l <= maxLen; l++ {
		t += size
		size *= len(c16Tokens)
	}
	return t
}

type c16Node struct {
	cl    *simcluster.Cluster
	m     *simcluster.Member
	other *simnet.SrvConn
	used  int
	data  []string
}

func c16Fresh(n int) *c16Node {
	sched.ResetClock()
	cl := simcluster.New(simcluster.Opts{N: n, Replicas: 1, Partitions: 7})
	m := cl.Members[len(cl.Members)-1]
	dm, err := m.Emb.NewDMap("d")
	if err != nil {
		panic(err)
	}
	simcluster.WrapDMap("", dm).Put("k", []byte("1"), simcluster.PutOpt{})
	node := &c16Node{cl: cl, m: m, other: simnet.NewSrvConn("other-conn")}
	// the partitions the token alphabet can name (0 and 1) hold entries of DMap "d" on this member
	// (a request only reaches the storage engine where there is something stored)
	for part := uint64(0); part < 2; part++ {
		part := part
		if os := cl.Live()[0].DB.VerifRT().VerifTable()[part].Owners; len(os) == 0 || cl.ByName(os[len(os)-1].Name) != m {
			continue // owned by the other member
		}
		node.data = append(node.data, cl.FindKey(fmt.Sprintf("p%d-", part), func(k string) bool {
			return cl.PartID("d", k) == part && cl.Owner(cl.Live()[0], "d", k) == m
		}))
	}
	node.restore()
	return node
}

// restore puts the stored data back after a request (and the release step) may have removed it.
func (n *c16Node) restore() {
	for _, k := range append([]string{"k"}, n.data...) {
		serve(n.m, n.other, "DM.PUT", "d", k, "1")
	}
}

func serve(m *simcluster.Member, conn *simnet.SrvConn, args ...string) (reply string, panicked interface{}) {
	defer func() {
		if p := recover(); p != nil {
			panicked = p
		}
	}()
	cmd := redcon.Command{}
	for _, a := range args {
		cmd.Args = append(cmd.Args, []byte(a))
	}
	m.DB.VerifServe(conn, cmd)
	return string(conn.Bytes()), nil
}

func replyClass(r string) string {
	switch {
	case r == "":
		return "no-reply"
	case r[0] == '-':
		f := strings.Fields(r[1:])
		if len(f) > 0 {
			return "error:" + f[0]
		}
		return "error"
	case r[0] == '+':
		return "status"
	case r[0] == ':':
		return "integer"
	case r[0] == '$':
		return "bulk"
	case r[0] == '*':
		return "array"
	}
	return "other"
}

func c16RunBatch(b c16Batch) c16Res {
	res := c16Res{Replies: map[string]int{}}
	node := c16Fresh(b.N)
	name := strings.Fields(b.Cmd)
	if b.Upper {
		for i := range name {
			name[i] = strings.ToUpper(name[i])
		}
	}
	for i := b.From; i < b.From+b.Count; i++ {
		v := c16Vector(i, b.MaxLen)
		if v == nil {
			break
		}
		if node.used >= 256 {
			node = c16Fresh(b.N)
		}
		node.used++
		res.Vectors++
		args := append(append(append([]string{}, name...), b.Prefix...), v...)
		conn := simnet.NewSrvConn("fuzz-conn")
		t0 := sched.PeekNS()
		reply, p := serve(node.m, conn, args...)
		if p == nil {
			// the same request once more: a request that was answered (with an error or not) must
			// not have left anything behind that makes its repetition fatal
			conn2 := simnet.NewSrvConn("fuzz-conn-2")
			if _, p2 := serve(node.m, conn2, args...); p2 != nil {
				res.Fails = append(res.Fails, c16Fail{Key: "panic-on-repetition/cmd=" + b.Cmd + "/" + panicSite(p2), What: fmt.Sprintf("the request was answered %q the first time; sent again the handler panicked: %v", reply, p2), Vector: args})
				node = c16Fresh(b.N)
				continue
			}
		}
		if p != nil {
			res.Fails = append(res.Fails, c16Fail{Key: "panic/cmd=" + b.Cmd + "/" + panicSite(p), What: fmt.Sprintf("handler panicked: %v", p), Vector: args})
			node = c16Fresh(b.N) // a panic may have left a lock held: never touch this instance again
			continue
		}
		if connDetached(conn) {
			// the request put its connection into subscriber mode: what the client sends next is read
			// by the connection's own background runner, a goroutine whose panic nothing recovers (the
			// member process dies - here the worker does, which the parent reports). Every short
			// follow-up, each on a connection of its own that was put into the same mode.
			conn.DetachedConn().WaitIdle()
			conn.DetachedConn().HangUp()
			for _, f := range c16FollowUps {
				c := simnet.NewSrvConn("fuzz-conn-sub")
				if _, p := serve(node.m, c, args...); p != nil || !connDetached(c) {
					continue
				}
				d := c.DetachedConn()
				d.WaitIdle()
				d.Send(f...)
				d.Send("PING")
				d.HangUp()
				res.Replies["follow-up-on-subscriber-connection"]++
			}
		}
		cls := replyClass(reply)
		res.Replies[cls]++
		if cls == "no-reply" && !connDetached(conn) {
			res.Fails = append(res.Fails, c16Fail{Key: "no-reply/cmd=" + b.Cmd, What: "the handler returned without writing any reply", Vector: args})
		}
		if waited := sched.PeekNS() - t0; waited > int64(time.Hour) {
			res.Replies["waited-in-virtual-time"]++
		}
		// the member must keep serving this and every other connection
		if r, p := serve(node.m, conn, "PING"); p != nil || !strings.HasPrefix(r, "+PONG") {
			res.Fails = append(res.Fails, c16Fail{Key: "not-serving-same-connection/cmd=" + b.Cmd, What: fmt.Sprintf("PING on the same connection afterwards: reply %q panic %v", r, p), Vector: args})
			node = c16Fresh(b.N)
			continue
		}
		r1, p1 := serve(node.m, node.other, "DM.PUT", "probe", "pk", "pv")
		r2, p2 := serve(node.m, node.other, "DM.GET", "probe", "pk")
		if p1 != nil || p2 != nil || !strings.HasPrefix(r1, "+OK") || !strings.Contains(r2, "pv") {
			res.Fails = append(res.Fails, c16Fail{Key: "not-serving-other-connection/cmd=" + b.Cmd, What: fmt.Sprintf("Put/Get round trip on another connection afterwards: %q %q (panics %v %v)", r1, r2, p1, p2), Vector: args})
			node = c16Fresh(b.N)
			continue
		}
		// release what the vector may have taken so that later vectors cannot block on it
		serve(node.m, node.other, "DM.DEL", "d", "k", "", "abc", "0", "1", "7")
		node.restore()
	}
	return res
}

func connDetached(c *simnet.SrvConn) bool { return c.IsDetached() }

// c16FollowUps: commands sent on a connection that is in subscriber mode.
var c16FollowUps = [][]string{
	{"UNSUBSCRIBE"}, {"PUNSUBSCRIBE"}, {"UNSUBSCRIBE", "abc"}, {"PUNSUBSCRIBE", "abc"}, {"UNSUBSCRIBE", ""}, {"SUBSCRIBE"}, {"PSUBSCRIBE"},
	{"SUBSCRIBE", "abc", "abc"}, {"PSUBSCRIBE", "["}, {"PING"}, {"PING", "abc", "abc"}, {"DM.GET", "d", "k"}, {"QUIT"}, {""},
}

func panicSite(p interface{}) string {
	s := fmt.Sprint(p)
	if len(s) > 60 {
		s = s[:60]
	}
	return strings.ReplaceAll(s, "/", "|")
}

// ---- RESP frames through redcon's real reader --------------------------------------------------

var c16FrameBytes = []byte{'*', '$', '1', '2', '-', '\r', '\n', 'a', ' '}

func c16Frames(maxLen int) [][]byte {
	var out [][]byte
	var rec func(cur []byte)
	rec = func(cur []byte) {
		if len(cur) > 0 {
			out = append(out, append([]byte{}, cur...))
		}
		if len(cur) == maxLen {
			return
		}
		for _, b := range c16FrameBytes {
			rec(append(cur, b))
		}
	}
	rec(nil)
	return out
}

func c16RunFrames(b c16Batch) c16Res {
	res := c16Res{Replies: map[string]int{}}
	node := c16Fresh(1)
	frames := c16Frames(b.MaxLen)
	for i := b.From; i < b.From+b.Count && i < len(frames); i++ {
		f := frames[i]
		res.Vectors++
		func() {
			defer func() {
				if p := recover(); p != nil {
					res.Fails = append(res.Fails, c16Fail{Key: "frame-panic/" + panicSite(p), What: fmt.Sprintf("parsing/serving the byte string panicked: %v", p), Vector: []string{string(f)}})
					node = c16Fresh(1)
				}
			}()
			rd := redcon.NewReader(bytes.NewReader(f))
			n := 0
			for {
				cmd, err := rd.ReadCommand()
				if err != nil {
					res.Replies["parse-error-or-eof"]++
					break
				}
				n++
				if len(cmd.Args) == 0 {
					continue
				}
				conn := simnet.NewSrvConn("frame-conn")
				node.m.DB.VerifServe(conn, cmd)
				res.Replies[replyClass(string(conn.Bytes()))]++
				if n > 64 {
					res.Fails = append(res.Fails, c16Fail{Key: "frame-endless-commands", What: "the reader keeps producing commands from a finite byte string", Vector: []string{string(f)}})
					break
				}
			}
		}()
	}
	if r, p := serve(node.m, node.other, "PING"); p != nil || !strings.HasPrefix(r, "+PONG") {
		res.Fails = append(res.Fails, c16Fail{Key: "frames/not-serving-afterwards", What: fmt.Sprintf("PING after the frame batch: %q %v", r, p)})
	}
	return res
}

func init() {
	core.RegisterJob("c16", func(raw json.RawMessage) (interface{}, error) {
		var b c16Batch
		if err := json.Unmarshal(raw, &b); err != nil {
			return nil, err
		}
		if b.Frames {
			return c16RunFrames(b), nil
		}
		return c16RunBatch(b), nil
	})
	core.Register(&core.Check{ID: "C16", Level: "exploration", Run: func(c *core.Ctx) {
		maxLen, frameLen := 3, 5
		if !c.Quick() {
			maxLen, frameLen = 4, 6
		}
		probe := c16Fresh(1)
		cmds := probe.m.DB.VerifServer().VerifCommands()
		total := c16Total(maxLen)
		var params []interface{}
		const batch = 4000
		for _, cmd := range cmds {
			for from := 0; from < total; from += batch {
				params = append(params, c16Batch{Cmd: cmd, From: from, Count: batch, MaxLen: maxLen, N: 1})
			}
			// the command name in upper case and through a second member (shorter vectors)
			short := c16Total(maxLen - 1)
			for from := 0; from < short; from += batch {
				params = append(params, c16Batch{Cmd: cmd, From: from, Count: batch, MaxLen: maxLen - 1, Upper: true, N: 2})
			}
		}
		// plausible positional prefixes of every length 1..4, followed by every vector of length <= 2
		for _, cmd := range cmds {
			for _, full := range [][]string{{"d", "k", "1", "1"}, {"0", "d", "0", "1"}, {"d", "k", "abc", "7"}, {"1", "d", "1", "abc"}} {
				for n := 1; n <= len(full); n++ {
					params = append(params, c16Batch{Cmd: cmd, From: 0, Count: c16Total(2), MaxLen: 2, N: 1, Prefix: full[:n]})
				}
			}
		}
		nframes := len(c16Frames(frameLen))
		for from := 0; from < nframes; from += 20000 {
			params = append(params, c16Batch{Frames: true, From: from, Count: 20000, MaxLen: frameLen})
		}
		vectors := 0
		classes := map[string]int{}
		var rerun []c16Batch
		handle := func(jp c16Batch, res json.RawMessage, crash string, single bool) {
			if crash != "" {
				if !single && !jp.Frames {
					rerun = append(rerun, jp)
					return
				}
				what := "the worker process died or did not answer"
				v := []string{}
				if single {
					v = append(append(strings.Fields(jp.Cmd), jp.Prefix...), c16Vector(jp.From, jp.MaxLen)...)
					what = fmt.Sprintf("request %q: the handler did not return within the wall-clock watchdog or killed the process (%s)", v, crash)
				}
				c.Violate("C16/hang-or-crash/cmd="+jp.Cmd, what, map[string]interface{}{"batch": jp, "vector": v})
				return
			}
			var r c16Res
			json.Unmarshal(res, &r)
			vectors += r.Vectors
			for k, n := range r.Replies {
				classes[k] += n
			}
			for _, f := range r.Fails {
				c.Violate("C16/"+f.Key, fmt.Sprintf("request %q: %s", f.Vector, f.What), map[string]interface{}{"vector": f.Vector, "n": jp.N})
			}
		}
		core.RunJobs("c16", params, 60*time.Second, func(idx int, res json.RawMessage, crash string) {
			handle(params[idx].(c16Batch), res, crash, false)
		})
		// a batch that hung or died: find culprit vectors one by one, stopping at the third
		narrowed := 0
		for _, jp := range rerun {
			if narrowed >= 6 {
				c.Violate("C16/hang-or-crash/cmd="+jp.Cmd, fmt.Sprintf("a batch of requests for %s (prefix %q, vectors %d..%d) hung or killed the worker; not narrowed down (enough culprits reported already)", jp.Cmd, jp.Prefix, jp.From, jp.From+jp.Count), jp)
				continue
			}
			narrowed++
			var singles []interface{}
			for i := jp.From; i < jp.From+jp.Count && i < c16Total(jp.MaxLen); i++ {
				s := jp
				s.From, s.Count = i, 1
				singles = append(singles, s)
			}
			found := 0
			core.RunJobsUntil("c16", singles, 5*time.Second, func(idx int, res json.RawMessage, crash string) {
				if crash != "" {
					found++
				}
				handle(singles[idx].(c16Batch), res, crash, true)
			}, func() bool { return found >= 3 })
		}
		var cl []string
		for k := range classes {
			cl = append(cl, fmt.Sprintf("%s=%d", k, classes[k]))
		}
		sort.Strings(cl)
		c.Sample(map[string]interface{}{"command": cmds[0], "vector": c16Vector(700, maxLen)})
		c.Sample(map[string]interface{}{"command": "dm.scan", "vector": c16Vector(9000, maxLen)})
		c.Sample(map[string]interface{}{"frame": "*1\r\n$1"})
		c.Cov["evaluations"] = vectors
		c.Cov["distinct_nontrivial"] = len(classes)
		c.Cov["reply_classes"] = cl
		c.Cov["commands"] = cmds
		c.Cov["exhaustive"] = len(rerun) == 0
		c.Cov["rule"] = fmt.Sprintf("for each of the %d registered commands every argument vector of length 0..%d over a %d-token alphabet (keywords in both cases, valid / negative / huge / non-numeric numbers, empty and binary strings, a live DMap and key) through the real command multiplexer of a healthy member, the same vectors of length <= 2 behind 16 plausible positional prefixes (so that 'valid request + option without its value' is reached), plus upper-case names through a second member and every byte string of length <= %d over {* $ 1 2 - CR LF a SP} through redcon's reader; every request is sent twice in a row (the repetition must not panic either) to a member whose nameable partitions hold entries; after each request: no panic, a reply was written, PING on the same connection and a Put/Get round trip on another connection succeed; a worker that dies or exceeds the watchdog is re-run vector by vector; non-trivial = distinct reply classes observed", len(cmds), maxLen, len(c16Tokens), frameLen)
		c.Assumef("a handler that only waits in virtual time (DM.LOCK with a deadline on a held key) is waiting, not wedged; keys are released after every request so that no request can block on an earlier one")
	}})
}
