package checks

import (
	"fmt"
	"strings"
	"time"

	"github.com/olric-data/olric/internal/verif/core"
	"github.com/olric-data/olric/internal/verif/sched"
	"github.com/olric-data/olric/internal/verif/schedmc"
	"github.com/olric-data/olric/internal/verif/simcluster"
)

// registerModel: state "" = absent, otherwise the value.
type registerModel struct{ init string }

func (m registerModel) Init() string { return m.init }
func (m registerModel) Step(state string, c *schedmc.Call) (string, bool) {
	v, _ := c.In.(string)
	e := c.Res.Err
	switch c.Op {
	case "put":
		return v, e == ""
	case "putnx":
		if state == "" {
			return v, e == ""
		}
		return state, e == "keyfound"
	case "putxx":
		if state != "" {
			return v, e == ""
		}
		return state, e == "notfound"
	case "get":
		if state == "" {
			return state, e == "notfound"
		}
		return state, e == "" && string(c.Res.Val) == state
	case "del":
		return "", e == ""
	}
	return state, false
}

// op codes: P put, N putnx, X putxx, G get, D delete
func regBody(code string) func(e *schedmc.Env) {
	return func(e *schedmc.Env) {
		for j, ch := range code {
			v := fmt.Sprintf("%c%d.%d", ch, e.Tid, j)
			switch ch {
			case 'P':
				e.H.Do(e.Tid, "put", v, v, func() simcluster.Res { return e.KV.Put(e.Key, []byte(v), simcluster.PutOpt{}) })
			case 'N':
				e.H.Do(e.Tid, "putnx", v, v, func() simcluster.Res { return e.KV.Put(e.Key, []byte(v), simcluster.PutOpt{NX: true}) })
			case 'X':
				e.H.Do(e.Tid, "putxx", v, v, func() simcluster.Res { return e.KV.Put(e.Key, []byte(v), simcluster.PutOpt{XX: true}) })
			case 'n', 'x':
				// the conditional Puts carrying an expiry option as well (a day: far beyond every read of
				// the run, the hour-later one included) - the same register operations
				op, opt := "putnx", simcluster.PutOpt{NX: true, EX: 24 * time.Hour}
				if ch == 'x' {
					op, opt = "putxx", simcluster.PutOpt{XX: true, PX: 24 * time.Hour}
				}
				e.H.Do(e.Tid, op, v, v, func() simcluster.Res { return e.KV.Put(e.Key, []byte(v), opt) })
			case 'G':
				e.H.Do(e.Tid, "get", "", "", func() simcluster.Res { return e.KV.Get(e.Key) })
			case 'D':
				e.H.Do(e.Tid, "del", "", "", func() simcluster.Res { return e.KV.Del(e.Key) })
			}
		}
	}
}

type c01cfg struct {
	n, r, table int
	pre         string // "absent" | "present" | "multitable" | "sealed" | "emptyfrag"
	bg          string // "" | "janitor" | "compaction"
}

func c01Programs(tier string) []*schedmc.Program {
	quick := tier != "thorough"
	codes := [][]string{
		{"P", "P"}, {"P", "G"}, {"P", "D"}, {"N", "N"}, {"X", "D"}, {"P", "X"}, {"N", "D"},
		{"PG", "PG"}, {"PD", "GG"}, {"D", "GG"}, {"N", "DN"}, {"DP", "X"},
		{"n", "P"}, {"x", "D"},
	}
	entPairs := [][]string{{"EO", "EO"}, {"EO", "EN"}, {"EN", "EN2"}, {"EO", "CC"}, {"EN", "CC"}, {"CC", "CC"}, {"RN", "EO"}, {"RO", "RN"}}
	cfgs := []c01cfg{
		{2, 1, 1 << 16, "absent", ""},
		{3, 2, 128, "multitable", ""},
		{2, 1, 128, "sealed", ""},
	}
	if !quick {
		cfgs = append(cfgs, c01cfg{1, 1, 1 << 16, "present", ""}, c01cfg{2, 2, 128, "multitable", ""}, c01cfg{3, 3, 200, "multitable", ""}, c01cfg{3, 1, 1 << 16, "present", ""})
		codes = append(codes, []string{"P", "P", "G"}, []string{"N", "N", "N"}, []string{"P", "D", "G"}, []string{"PG", "DG"}, []string{"X", "P", "D"}, []string{"NG", "DG"})
	}
	var progs []*schedmc.Program
	mk := func(cf c01cfg, code []string, ents []string) {
		name := fmt.Sprintf("ops=%s N=%d R=%d table=%d pre=%s entries=%s", strings.Join(code, "|"), cf.n, cf.r, cf.table, cf.pre, strings.Join(ents, "+"))
		if cf.bg != "" {
			name += " bg=" + cf.bg
		}
		p := &schedmc.Program{Name: name, DMap: "d", Key: "k",
			Opts: simcluster.Opts{N: cf.n, Replicas: cf.r, WriteQ: 1, ReadQ: 1, Partitions: 7, TableSize: cf.table}}
		init := ""
		p.Setup = func(cl *simcluster.Cluster, p *schedmc.Program) {
			schedmc.Warm(cl, p.DMap)
			kv, _ := cl.Entry("EO", p.DMap, p.Key)
			switch cf.pre {
			case "present":
				kv.Put(p.Key, []byte("v0"), simcluster.PutOpt{})
			case "emptyfrag":
				kv.Put(p.Key, []byte("v0"), simcluster.PutOpt{})
				kv.Del(p.Key)
			case "multitable":
				// k gets an older version in an older table, the fragment spans several tables
				part := cl.PartID(p.DMap, p.Key)
				kv.Put(p.Key, []byte("old"), simcluster.PutOpt{})
				n := 0
				cl.FindKey("f", func(k string) bool {
					if cl.PartID(p.DMap, k) == part {
						kv.Put(k, []byte("fill-fill-fill"), simcluster.PutOpt{})
						n++
					}
					return n >= 5
				})
				kv.Put(p.Key, []byte("v0"), simcluster.PutOpt{})
			case "sealed":
				// k's only version sits in an older, sealed table: neighbours written afterwards have
				// moved the fragment on to newer tables and k is not rewritten
				part := cl.PartID(p.DMap, p.Key)
				kv.Put(p.Key, []byte("v0"), simcluster.PutOpt{})
				n := 0
				cl.FindKey("f", func(k string) bool {
					if cl.PartID(p.DMap, k) == part {
						kv.Put(k, []byte("fill-fill-fill"), simcluster.PutOpt{})
						n++
					}
					return n >= 5
				})
			}
		}
		if cf.pre == "present" || cf.pre == "multitable" || cf.pre == "sealed" {
			init = "v0"
		}
		for i, e := range ents {
			p.Threads = append(p.Threads, schedmc.Thread{Entry: e, Body: regBody(code[i])})
		}
		if cf.bg != "" {
			bg := cf.bg
			p.Threads = append(p.Threads, schedmc.Thread{Name: "bg/" + bg, Body: func(e *schedmc.Env) {
				owner := e.Cl.Owner(e.Cl.Live()[0], e.DMap, e.Key)
				if bg == "janitor" {
					owner.DB.VerifDMap().VerifJanitor()
				} else {
					owner.DB.VerifDMap().VerifCompactPartition(e.Cl.PartID(e.DMap, e.Key))
				}
			}})
		}
		p.Judge = func(cl *simcluster.Cluster, h *schedmc.Hist, x *sched.Exec) (string, string) {
			sig := fmt.Sprintf("ops=%s/entries=%s/table=%s/bg=%s", strings.Join(code, "|"), strings.Join(classes(ents), "+"), tableClass(cf.table), cf.bg)
			for _, c := range h.Calls {
				e := c.Res.Err
				if e != "" && e != "notfound" && e != "keyfound" {
					return "unexpected-error/" + strings.SplitN(e, ":", 2)[0] + "/" + sig, "operation failed in a healthy stable cluster: " + c.String()
				}
			}
			ok, finals := schedmc.Linearizable(h.Calls, registerModel{init})
			if !ok {
				return "not-linearizable/" + sig, "no sequential order consistent with real time explains the responses"
			}
			for pass := 0; pass < 2; pass++ {
				if pass == 1 {
					// an hour later the value is the same: no call asked for an expiry
					schedmc.AfterAWhile()
					sig += "/an-hour-later"
				}
				for _, mem := range cl.Live() {
					dm, _ := mem.Emb.NewDMap("d")
					r := simcluster.WrapDMap("", dm).Get("k")
					got := string(r.Val)
					h.Note = "final=" + got
					if r.Err != "" && r.Err != "notfound" {
						return "final-read-error/" + sig, fmt.Sprintf("final Get from %s: %s", mem.Name, r.Err)
					}
					match := false
					for _, f := range finals {
						match = match || f == got
					}
					if !match {
						return "final-value/" + sig, fmt.Sprintf("after the run Get from %s returns %q; linearizations allow %q", mem.Name, got, finals)
					}
				}
			}
			return "", ""
		}
		progs = append(progs, p)
	}
	for _, cf := range cfgs {
		for _, code := range codes {
			pairs := entPairs
			if len(code) == 3 {
				pairs = [][]string{{"EO", "EN", "CC"}, {"EN", "EN2", "RN"}, {"EO", "EO", "EO"}, {"CC", "CC", "EN"}}
			}
			for _, ents := range pairs {
				if cf.n == 1 && !(ents[0] == "EO" || ents[0] == "CC" || ents[0] == "RO") {
					continue
				}
				if cf.n == 1 {
					skip := false
					for _, e := range ents {
						if e == "EN" || e == "EN2" || e == "RN" {
							skip = true
						}
					}
					if skip {
						continue
					}
				}
				mk(cf, code, ents)
			}
		}
	}
	// one writer and two readers that enter through two DIFFERENT non-owner members (both backup
	// owners with three replicas): the second read starts after the first has returned
	for _, cf := range []c01cfg{{3, 3, 1 << 16, "present", ""}, {3, 2, 1 << 16, "present", ""}} {
		for _, code := range [][]string{{"P", "G", "G"}, {"D", "G", "G"}} {
			for _, ents := range [][]string{{"EO", "EN", "EN2"}, {"CC", "EN2", "RN"}} {
				mk(cf, code, ents)
			}
		}
	}
	// background-worker variants: a janitor or compaction pass racing the client operations
	for _, bg := range []string{"janitor", "compaction"} {
		for _, code := range [][]string{{"P"}, {"N"}, {"P", "G"}, {"PG"}} {
			for _, ents := range [][]string{{"EO", "EN"}, {"CC", "EO"}} {
				ents := ents[:len(code)]
				pre := "emptyfrag"
				table := 1 << 16
				if bg == "compaction" {
					pre, table = "multitable", 128
				}
				mk(c01cfg{2, 1, table, pre, bg}, code, ents)
			}
		}
	}
	return progs
}

func tableClass(t int) string {
	if t <= 256 {
		return "small"
	}
	return "big"
}

func init() {
	schedmc.Families["C01"] = c01Programs
	core.Register(&core.Check{ID: "C01", Level: "model_checking", Run: func(c *core.Ctx) {
		bound := 2
		if !c.Quick() {
			bound = 3
		}
		c.Cov["rule"] = "every schedule with at most `preemption_bound_completed` preemptions of every program (2-3 client threads x 1-2 ops on one key from {Put,PutNX,PutXX,Get,Delete}, entry-point tuples, cluster/table configurations, optional janitor/compaction thread); histories checked for linearizability against a register specification plus final reads from every member; non-trivial = executions with at least one preemption"
		shards, maxExecs := 1, 0
		if c.Tier == "thorough" {
			// heavy programs are split over 4 workers; a (program, shard) exploration that reaches
			// 150000 executions stops there and the check reports exhaustive:false
			shards, maxExecs = 4, 150000
		}
		if c.Tier == "thorough" {
			// bound 2 for every program first (no cap), then bound 3 as far as the budget goes
			schedmc.RunFamilyIter(c, "C01", 2, bound, shards, maxExecs)
		} else {
			schedmc.RunFamily(c, "C01", bound, shards, maxExecs)
		}
		c.Cov["traces_validated_against_impl"] = 0
		c.Assumef("sibling RPCs of one errgroup fan-out run in call order; data races are outside the cooperative scheduler's sequentially consistent model")
	}})
}
