package checks

import (
	"fmt"

	"github.com/olric-data/olric/internal/verif/clustermc"
	"github.com/olric-data/olric/internal/verif/confx"
	"github.com/olric-data/olric/internal/verif/core"
	"github.com/olric-data/olric/internal/verif/kvops"
	"github.com/olric-data/olric/internal/verif/schedmc"
	"github.com/olric-data/olric/internal/verif/simcluster"
)

func c04Params(tier string) []*kvops.Params {
	quick := tier != "thorough"
	alpha := []clustermc.Ev{
		ev("put", 0, 0, ""), ev("put", 0, 0, "NX"), ev("put", 0, 0, "XX"), ev("put", 0, 0, "PX"), ev("put", 0, 0, "EX"),
		ev("put", 0, 0, "PXAT"), ev("put", 0, 0, "NX+PX"),
		ev("expire", 0, 0, ""), ev("expire0", 0, 0, ""), ev("getput", 0, 0, ""), ev("incr", 0, 1, ""), ev("decr", 0, 1, ""), ev("incrf", 0, 0, ""),
		ev("del", 0, 0, ""), ev("lock", 0, 0, ""), ev("lock", 0, 1, ""), ev("unlock", 0, 0, ""), ev("lease", 0, 0, ""),
		ev("tick", 0, 1, ""), ev("tick", 0, 1500, ""), ev("evict", 0, 0, ""),
	}
	depth := 4
	type cf struct {
		n, r, table int
		entry       string
	}
	cfs := []cf{{3, 2, 1 << 16, "EO"}, {3, 2, 1 << 16, "EN"}, {3, 2, 1 << 16, "CC"}, {3, 3, 200, "EN"}, {3, 2, 200, "EO"}}
	if !quick {
		depth = 5
		alpha = append(alpha, ev("put", 0, 0, "EXAT"), ev("put", 0, 0, "XX+EX"), ev("unlock", 0, 1, ""), ev("compact", 0, 0, ""), ev("janitor", 0, 0, ""))
		cfs = append(cfs, cf{3, 3, 1 << 16, "EO"}, cf{3, 3, 1 << 16, "CC"}, cf{3, 2, 200, "CC"}, cf{3, 2, 1 << 16, "RN"}, cf{3, 2, 1 << 16, "RNx"})
	}
	var out []*kvops.Params
	for _, c := range cfs {
		alpha := alpha
		if c.table < 1024 {
			// small tables: neighbours can be written so that the key's versions spread over tables
			alpha = append(append([]clustermc.Ev{}, alpha...), ev("fill", 0, 0, ""))
		}
		p := &kvops.Params{
			Name:  fmt.Sprintf("N=%d R=%d table=%d entry=%s", c.n, c.r, c.table, c.entry),
			Opts:  simcluster.Opts{N: c.n, Replicas: c.r, WriteQ: 1, ReadQ: 1, Partitions: 7, TableSize: c.table},
			Entry: c.entry, DMap: "d", Keys: []string{"k"}, Alpha: alpha, Depth: depth, Mirror: true,
		}
		out = append(out, p)
	}
	// asynchronous replication: the replication calls a step starts are delivered right after it
	for _, c := range []cf{{3, 2, 1 << 16, "EN"}, {3, 3, 200, "EO"}} {
		alpha := alpha
		if c.table < 1024 {
			alpha = append(append([]clustermc.Ev{}, alpha...), ev("fill", 0, 0, ""))
		}
		out = append(out, &kvops.Params{
			Name:  fmt.Sprintf("N=%d R=%d table=%d entry=%s async-replication", c.n, c.r, c.table, c.entry),
			Opts:  simcluster.Opts{N: c.n, Replicas: c.r, WriteQ: 1, ReadQ: 1, Partitions: 7, TableSize: c.table, Async: true},
			Entry: c.entry, DMap: "d", Keys: []string{"k"}, Alpha: alpha, Depth: depth, Mirror: true,
		})
	}
	// non-initial start states (the key stored with an expiry and touched by a counter; a lock held):
	// the same depth reaches two steps further into the histories that begin this way
	for _, pre := range [][]clustermc.Ev{{ev("put", 0, 0, "PX"), ev("incr", 0, 1, "")}, {ev("lock", 0, 1, ""), ev("tick", 0, 1, "")}, {ev("put", 0, 0, ""), ev("expire", 0, 0, "")}} {
		for _, c := range []cf{{3, 2, 1 << 16, "EN"}, {3, 3, 200, "EN"}} {
			alpha := alpha
			if c.table < 1024 {
				alpha = append(append([]clustermc.Ev{}, alpha...), ev("fill", 0, 0, ""))
			}
			out = append(out, &kvops.Params{
				Name:  fmt.Sprintf("N=%d R=%d table=%d entry=%s start=%s;%s", c.n, c.r, c.table, c.entry, pre[0].K+pre[0].S, pre[1].K),
				Opts:  simcluster.Opts{N: c.n, Replicas: c.r, WriteQ: 1, ReadQ: 1, Partitions: 7, TableSize: c.table},
				Entry: c.entry, DMap: "d", Keys: []string{"k"}, Alpha: alpha, Depth: depth - 1, Mirror: true, Pre: pre,
			})
		}
	}
	return out
}

func c04Specs(tier string) []*clustermc.Spec {
	var out []*clustermc.Spec
	for _, p := range c04Params(tier) {
		out = append(out, kvops.Spec(p))
	}
	return out
}

func init() {
	clustermc.Specs["C04"] = c04Specs
	core.Register(&core.Check{ID: "C04", Level: "model_checking", Run: func(c *core.Ctx) {
		c.Cov["rule"] = "BFS over sequences of every mutating operation (Put with option forms, Expire, GetPut, Incr, Decr, IncrByFloat, Delete, Lock with/without timeout, Unlock, Lease, clock ticks, eviction pass) on one key through one entry point, replica count 2-3; after every acknowledged step the decoded copy on every listed backup owner is compared (value, expiry, timestamp, presence) with the primary copy; non-trivial = distinct states in which the key exists"
		clustermc.RunFamily(c, "C04")
		// evictions caused by a limit (LRU, MaxKeys / MaxInuse) on replicated clusters: Put sequences
		// over four keys, the mirror oracle after every Put
		c.Cov["rule"] = c.Cov["rule"].(string) + "; LRU part: BFS over Put sequences on four keys with MaxKeys / MaxInuse small enough to evict, N 2-3, R 2-3: after every Put a key that lost its primary copy to the eviction has no backup copy left, every other key's backup copies equal the primary copy"
		clustermc.RunFamily(c, "C04lru")
		// primary and backup stores with different histories: writes that land in reused (recycled) tables
		c04Recycle(c)
		// concurrent part: a waiting Lock that takes the lock over after the holder's Lease (the write
		// with an older time stamp than the copy it replaces), every schedule with at most one
		// preemption (two in thorough), mirror oracle on the final state
		cb := 1
		if !c.Quick() {
			cb = 2
		}
		schedmc.RunFamily(c, "C04conc", cb, 1, 0)
		delete(c.Cov, "preemption_bound_completed")
		c.Cov["concurrent_part"] = fmt.Sprintf("lock take-over after a lease on R=3 clusters, preemption bound %d: the backup copies of the lock entry equal the primary copy afterwards", cb)
		// the client-visible half of every explored step sequence is replayed on the real stack
		// (the white-box backup comparison itself has no public-API counterpart)
		var traces []confx.Trace
		perSpec := 200
		if !c.Quick() {
			perSpec = 1200
		}
		for _, p := range c04Params(c.Tier) {
			if (p.Entry == "EO" || p.Entry == "EN" || p.Entry == "CC") && p.Opts.TableSize > 1024 && len(p.Pre) == 0 && !p.Opts.Async {
				traces = append(traces, kvops.ConformTraces(p, 3, perSpec)...)
			}
		}
		confx.Replay(c, traces)
		c.Assumef("white-box copies are decoded from the raw table memory of every member through verif accessors")
	}})
}
