package checks

import (
	"fmt"

	"github.com/olric-data/olric/internal/verif/clustermc"
	"github.com/olric-data/olric/internal/verif/confx"
	"github.com/olric-data/olric/internal/verif/core"
	"github.com/olric-data/olric/internal/verif/kvops"
	"github.com/olric-data/olric/internal/verif/simcluster"
)

func ev(k string, a, b int, s string) clustermc.Ev { return clustermc.Ev{K: k, A: a, B: b, S: s} }

func c09Params(tier string) []*kvops.Params {
	quick := tier != "thorough"
	alpha := []clustermc.Ev{
		ev("put", 0, 0, ""), ev("put", 0, 0, "NX"), ev("put", 0, 0, "XX"), ev("put", 0, 0, "PX"), ev("put", 0, 0, "EX"),
		ev("put", 0, 0, "PXAT"), ev("put", 0, 0, "EXAT"),
		ev("expire", 0, 0, ""), ev("get", 0, 0, ""), ev("getput", 0, 0, ""), ev("incr", 0, 1, ""),
		ev("tick", 0, 1499, ""), ev("tick", 0, 1, ""), ev("tick", 0, 500, ""), ev("tick", 0, 1000, ""), ev("tick", 0, 300, ""),
		ev("evict", 0, 0, ""),
		// a lock is a key with an expiry too: its timeout and a later Lease must be honoured to the millisecond
		ev("lock", 0, 1, ""), ev("lease", 0, 0, ""),
	}
	depth := 5
	type cf struct {
		n, r  int
		entry string
		ttl   bool
		table int
	}
	// the last configuration has 200-byte tables and a "fill" event (neighbour keys roll the
	// partition on to another table): the key's entry sits in a sealed table when it is expired,
	// re-expired, incremented or conditionally overwritten
	cfs := []cf{{2, 1, "EO", false, 0}, {2, 1, "EN", false, 0}, {2, 1, "CC", false, 0}, {2, 2, "EN", false, 200}}
	if !quick {
		depth = 6
		alpha = append(alpha, ev("put", 0, 0, "NX+PX"), ev("put", 0, 0, "XX+EX"), ev("decr", 0, 1, ""), ev("del", 0, 0, ""))
		cfs = append(cfs, cf{3, 2, "EN", false, 0}, cf{3, 2, "CC", false, 0}, cf{2, 1, "RN", false, 0}, cf{2, 1, "RNx", false, 0}, cf{1, 1, "EO", true, 0}, cf{2, 1, "EO", false, 200})
	}
	var out []*kvops.Params
	for _, c := range cfs {
		alpha := alpha
		name := fmt.Sprintf("N=%d R=%d entry=%s defaultTTL=%v", c.n, c.r, c.entry, c.ttl)
		if c.table != 0 {
			alpha = append(append([]clustermc.Ev{}, alpha...), ev("fill", 0, 0, ""))
			name += fmt.Sprintf(" table=%d", c.table)
		}
		p := &kvops.Params{
			Name:  name,
			Opts:  simcluster.Opts{N: c.n, Replicas: c.r, WriteQ: 1, ReadQ: 1, Partitions: 7, TableSize: c.table},
			Entry: c.entry, DMap: "d", Keys: []string{"k"}, Alpha: alpha, Depth: depth, Visible: true,
		}
		if c.table != 0 {
			p.Depth = depth - 1 // the table layout is part of the state: one level less keeps the tier's time
		}
		if c.ttl {
			p.DefaultTTL = 2500 * 1e6
			p.Opts.TTL = p.DefaultTTL
		}
		out = append(out, p)
	}
	// the DMap's default TTL, given for all DMaps and given for this DMap only (config.DMaps.Custom)
	for _, custom := range []string{"", "d"} {
		name := "N=2 R=1 entry=EN defaultTTL=true"
		if custom != "" {
			name += " per-DMap-config"
		}
		out = append(out, &kvops.Params{
			Name:  name,
			Opts:  simcluster.Opts{N: 2, Replicas: 1, WriteQ: 1, ReadQ: 1, Partitions: 7, TTL: 2500 * 1e6, Custom: custom},
			Entry: "EN", DMap: "d", Keys: []string{"k"}, Alpha: alpha, Depth: depth - 1, Visible: true, DefaultTTL: 2500 * 1e6,
		})
	}
	// non-initial start states: the key already stored with an expiry (and touched by a counter), a
	// lock held, an expiry re-set - the same depth reaches two steps further into these histories
	for _, pre := range [][]clustermc.Ev{{ev("put", 0, 0, "PX"), ev("incr", 0, 1, "")}, {ev("lock", 0, 1, ""), ev("tick", 0, 1, "")}, {ev("put", 0, 0, ""), ev("expire", 0, 0, "")}} {
		for _, c := range []cf{{2, 1, "EN", false, 0}, {2, 2, "CC", false, 0}} {
			out = append(out, &kvops.Params{
				Name:  fmt.Sprintf("N=%d R=%d entry=%s defaultTTL=%v start=%s;%s", c.n, c.r, c.entry, c.ttl, pre[0].K+pre[0].S, pre[1].K),
				Opts:  simcluster.Opts{N: c.n, Replicas: c.r, WriteQ: 1, ReadQ: 1, Partitions: 7},
				Entry: c.entry, DMap: "d", Keys: []string{"k"}, Alpha: alpha, Depth: depth - 1, Visible: true, Pre: pre,
			})
		}
	}
	return out
}

func c09Specs(tier string) []*clustermc.Spec {
	var out []*clustermc.Spec
	for _, p := range c09Params(tier) {
		out = append(out, kvops.Spec(p))
	}
	return out
}

func init() {
	clustermc.Specs["C09"] = c09Specs
	core.Register(&core.Check{ID: "C09", Level: "model_checking", Run: func(c *core.Ctx) {
		c.Cov["rule"] = "BFS over sequences of {Put with every option form, Expire, Get, GetPut, Incr, clock ticks landing 1ms before / exactly at / after the deadlines, eviction pass} on one key through one entry point, on a fresh real cluster per transition under the virtual clock; every step result and, in every distinct state, a Get from every member are compared with a reference model with millisecond expiry; non-trivial = distinct states in which the key exists"
		clustermc.RunFamily(c, "C09")
		var traces []confx.Trace
		perSpec := 250
		if !c.Quick() {
			perSpec = 1500
		}
		for _, p := range c09Params(c.Tier) {
			if (p.Entry == "EO" || p.Entry == "EN" || p.Entry == "CC") && p.DefaultTTL == 0 && p.Opts.TableSize == 0 && len(p.Pre) == 0 {
				traces = append(traces, kvops.ConformTraces(p, 3, perSpec)...)
			}
		}
		confx.Replay(c, traces)
		c.Assumef("virtual clock: deadlines are whole milliseconds and ticks are whole milliseconds, so no comparison falls inside the 1ms resolution of the stored expiry")
	}})
}
