package checks

import (
	"fmt"
	"strconv"
	"strings"
	"time"

	"github.com/olric-data/olric/internal/verif/core"
	"github.com/olric-data/olric/internal/verif/sched"
	"github.com/olric-data/olric/internal/verif/schedmc"
	"github.com/olric-data/olric/internal/verif/simcluster"
)

// multisets of size k over items (with repetition, non-decreasing index order)
func multisets(items []string, k int) [][]string {
	var out [][]string
	var rec func(start int, cur []string)
	rec = func(start int, cur []string) {
		if len(cur) == k {
			out = append(out, append([]string{}, cur...))
			return
		}
		for i := start; i < len(items); i++ {
			rec(i, append(cur, items[i]))
		}
	}
	rec(0, nil)
	return out
}

type counterModel struct{ init int64 }

func (m counterModel) Init() string { return strconv.FormatInt(m.init, 10) }
func (m counterModel) Step(state string, c *schedmc.Call) (string, bool) {
	cur, _ := strconv.ParseInt(state, 10, 64)
	d := c.In.(int64)
	next := cur + d
	return strconv.FormatInt(next, 10), c.Res.Err == "" && c.Res.N == next
}

type floatModel struct{ init float64 }

func (m floatModel) Init() string { return strconv.FormatFloat(m.init, 'g', -1, 64) }
func (m floatModel) Step(state string, c *schedmc.Call) (string, bool) {
	cur, _ := strconv.ParseFloat(state, 64)
	next := cur + c.In.(float64)
	return strconv.FormatFloat(next, 'g', -1, 64), c.Res.Err == "" && c.Res.F == next
}

// getPutModel: state is the current value ("" = none); a call returns the previous value.
type getPutModel struct{ init string }

func (m getPutModel) Init() string { return m.init }
func (m getPutModel) Step(state string, c *schedmc.Call) (string, bool) {
	ok := c.Res.Err == ""
	if state == "" {
		ok = ok && c.Res.Nil
	} else {
		ok = ok && !c.Res.Nil && string(c.Res.Val) == state
	}
	return c.In.(string), ok
}

func entriesFor(n int) []string {
	switch n {
	case 1:
		return []string{"EO", "CC", "RO"}
	case 2:
		return []string{"EO", "EN", "CC", "RN"}
	}
	return []string{"EO", "EN", "EN2", "CC", "RN"}
}

func c07Programs(tier string) []*schedmc.Program {
	var progs []*schedmc.Program
	type cfg struct {
		n, r int
		// join: the last member joined after data was written; the table was pushed and the fragments
		// were handed over, but the previous owner is still LISTED for the counter's partition (it is
		// pruned by the next routing push only): callers on the previous owner and on the owner
		join bool
	}
	cfgs := []cfg{{1, 1, false}, {2, 1, false}, {3, 2, false}, {2, 1, true}}
	threadCounts := []int{2}
	if tier == "thorough" {
		cfgs = append(cfgs, cfg{2, 2, false}, cfg{3, 1, false}, cfg{2, 2, true})
		threadCounts = []int{2, 3}
	}
	deltas := []int64{1, 2, 4}
	for _, cf := range cfgs {
		for _, T := range threadCounts {
			for _, ents := range multisets(entriesFor(cf.n), T) {
				for _, kind := range []string{"incr", "incrdecr", "float", "getput", "incr-expired"} {
					if kind == "incr-expired" && T > 2 {
						continue
					}
					if cf.join && kind != "incr" && kind != "getput" {
						continue
					}
					ents, kind, cf := ents, kind, cf
					p := &schedmc.Program{
						Name: fmt.Sprintf("%s N=%d R=%d entries=%s", kind, cf.n, cf.r, strings.Join(ents, "+")),
						Opts: simcluster.Opts{N: cf.n, Replicas: cf.r, WriteQ: 1, ReadQ: 1, Partitions: 7},
						DMap: "d", Key: "ctr",
					}
					if cf.join {
						p.Name += " previous-owner-still-listed"
						p.Opts.N = cf.n - 1
					}
					p.Setup = func(cl *simcluster.Cluster, p *schedmc.Program) {
						if cf.join {
							// a key in every partition on the old member(s), then the join, the routing push
							// and the hand-over of the fragments - but not the push that prunes the emptied
							// previous owners
							first := cl.Live()[0]
							dm0, _ := first.Emb.NewDMap(p.DMap)
							kv0 := simcluster.WrapDMap("", dm0)
							for part := uint64(0); part < cl.O.Partitions; part++ {
								part := part
								kv0.Put(cl.FindKey(fmt.Sprintf("bg%d-", part), func(k string) bool { return cl.PartID(p.DMap, k) == part }), []byte("x"), simcluster.PutOpt{})
							}
							nm, err := cl.StartMember(cf.n - 1)
							if err != nil {
								panic(err)
							}
							cl.DeliverAll()
							cl.Push()
							for round := 0; round < 4; round++ {
								for _, m := range cl.Live() {
									cl.Balance(m)
								}
							}
							cl.Quiesce()
							// the counter: a key of a partition that went to the new member and still lists
							// its previous owner
							p.Key = cl.FindKey("ctr", func(k string) bool {
								t := first.DB.VerifRT().VerifTable()[cl.PartID(p.DMap, k)]
								return cl.Owner(first, p.DMap, k) == nm && len(t.Owners) >= 2
							})
						}
						schedmc.Warm(cl, p.DMap)
						kv, _ := cl.Entry("EO", p.DMap, p.Key)
						switch kind {
						case "incr", "incrdecr":
							kv.Incr(p.Key, 10)
						case "float":
							kv.IncrByFloat(p.Key, 10)
						case "incr-expired":
							// the counter exists with an expiry that has run out (nothing has evicted it):
							// it counts as absent, the callers start from 0
							kv.Incr(p.Key, 100)
							kv.Expire(p.Key, 5*time.Millisecond)
							sched.AdvanceNS(int64(10 * time.Millisecond))
						}
					}
					for i, e := range ents {
						i := i
						th := schedmc.Thread{Entry: e}
						switch kind {
						case "incr", "incr-expired":
							th.Body = func(e *schedmc.Env) {
								e.H.Do(e.Tid, "incr", fmt.Sprint(deltas[i]), deltas[i], func() simcluster.Res { return e.KV.Incr(e.Key, int(deltas[i])) })
							}
						case "incrdecr":
							th.Body = func(e *schedmc.Env) {
								if i%2 == 0 {
									e.H.Do(e.Tid, "incr", fmt.Sprint(deltas[i]), deltas[i], func() simcluster.Res { return e.KV.Incr(e.Key, int(deltas[i])) })
								} else {
									e.H.Do(e.Tid, "decr", fmt.Sprint(deltas[i]), -deltas[i], func() simcluster.Res { return e.KV.Decr(e.Key, int(deltas[i])) })
								}
							}
						case "float":
							th.Body = func(e *schedmc.Env) {
								d := float64(deltas[i]) / 4
								e.H.Do(e.Tid, "incrbyfloat", fmt.Sprint(d), d, func() simcluster.Res { return e.KV.IncrByFloat(e.Key, d) })
							}
						case "getput":
							th.Body = func(e *schedmc.Env) {
								v := fmt.Sprintf("v%d", i+1)
								e.H.Do(e.Tid, "getput", v, v, func() simcluster.Res { return e.KV.GetPut(e.Key, []byte(v)) })
							}
						}
						p.Threads = append(p.Threads, th)
					}
					p.Judge = func(cl *simcluster.Cluster, h *schedmc.Hist, x *sched.Exec) (string, string) {
						var m schedmc.Model
						switch kind {
						case "incr-expired":
							m = counterModel{0}
						case "incr", "incrdecr":
							m = counterModel{10}
						case "float":
							m = floatModel{10}
						default:
							m = getPutModel{""}
						}
						for _, c := range h.Calls {
							if c.Res.Err != "" {
								return fmt.Sprintf("unexpected-error/op=%s/err=%s", c.Op, strings.SplitN(c.Res.Err, ":", 2)[0]), "operation failed in a healthy stable cluster: " + c.String()
							}
						}
						sig := fmt.Sprintf("op=%s/entries=%s", kind, strings.Join(classes(ents), "+"))
						ok, finals := schedmc.Linearizable(h.Calls, m)
						if !ok {
							return "not-atomic/" + sig, "returned values are not explainable by any sequential order"
						}
						// final value as read afterwards from every member, right away and an hour later
						// (no caller asked for an expiry)
						for pass := 0; pass < 2; pass++ {
							if pass == 1 {
								schedmc.AfterAWhile()
								sig += "/an-hour-later"
							}
							for _, mem := range cl.Live() {
								dm, _ := mem.Emb.NewDMap("d")
								r := simcluster.WrapDMap("", dm).Get(p.Key)
								got := string(r.Val)
								h.Note = "final=" + got
								match := false
								for _, f := range finals {
									if kind == "float" {
										a, _ := strconv.ParseFloat(f, 64)
										b, _ := strconv.ParseFloat(got, 64)
										match = match || a == b
									} else {
										match = match || f == got
									}
								}
								if !match {
									return "final-value/" + sig, fmt.Sprintf("final value read from %s is %q (err=%s); sequential orders allow %v", mem.Name, got, r.Err, finals)
								}
							}
						}
						return "", ""
					}
					progs = append(progs, p)
				}
			}
		}
	}
	return progs
}

// classes maps entry kinds to the classes that matter for known-finding keys.
func classes(ents []string) []string {
	out := make([]string, len(ents))
	for i, e := range ents {
		switch e {
		case "EN2":
			out[i] = "EN"
		default:
			out[i] = e
		}
	}
	return out
}

func init() {
	schedmc.Families["C07"] = c07Programs
	core.Register(&core.Check{ID: "C07", Level: "model_checking", Run: func(c *core.Ctx) {
		bound := 2
		if !c.Quick() {
			bound = 3
		}
		c.Cov["rule"] = "every schedule with at most `preemption_bound_completed` preemptions of every program (threads x 1 atomic op each, all entry-point multisets, cluster configs); non-trivial = executions that contain at least one preemption; a fresh real cluster per execution"
		shards, maxExecs := 1, 0
		if c.Tier == "thorough" {
			// heavy programs are split over 4 workers; a (program, shard) exploration that reaches
			// 150000 executions stops there and the check reports exhaustive:false
			shards, maxExecs = 4, 150000
		}
		if c.Tier == "thorough" {
			// bound 2 for every program first (no cap), then bound 3 as far as the budget goes
			schedmc.RunFamilyIter(c, "C07", 2, bound, shards, maxExecs)
		} else {
			schedmc.RunFamily(c, "C07", bound, shards, maxExecs)
		}
		c.Cov["traces_validated_against_impl"] = 0
		c.Assumef("sibling RPCs of one errgroup fan-out run in call order; data races are outside the cooperative scheduler's sequentially consistent model")
	}})
}
