package checks

import (
	"fmt"
	"strings"

	"github.com/olric-data/olric/internal/verif/sched"
	"github.com/olric-data/olric/internal/verif/schedmc"
	"github.com/olric-data/olric/internal/verif/simcluster"
	"github.com/olric-data/olric/internal/verif/simnet"
	"github.com/tidwall/redcon"
)

// C14, concurrent part: two publishers (one sends two messages, through different members) and a
// third thread that changes a subscription while they run; every interleaving is judged.

type c14Run struct {
	conns []*c14Conn // subscriber connections; subs = subscriptions held for the whole run
	// volatile[i]: what the third thread does to connection i ("" nothing, "unsub", "sub", "psub")
	volatile []string
}

var c14Cur *c14Run

func c14Publish(cl *simcluster.Cluster, via int, ch, payload string) simcluster.Res {
	pc := simnet.NewSrvConn("publisher")
	cl.Members[via].DB.VerifServe(pc, redcon.Command{Args: [][]byte{[]byte("PUBLISH"), []byte(ch), []byte(payload)}})
	reply := strings.TrimSpace(string(pc.Bytes()))
	var n int
	if _, err := fmt.Sscanf(reply, ":%d", &n); err != nil {
		return simcluster.Res{Err: reply}
	}
	return simcluster.Res{N: int64(n)}
}

func c14ConcPrograms(tier string) []*schedmc.Program {
	var progs []*schedmc.Program
	type layout struct {
		name string
		subs [][]string // per connection: initial subscriptions; connection i sits on member i%2... see members
		mem  []int
	}
	layouts := []layout{
		{"s0@m0[a] s1@m1[a]", [][]string{{"c:a"}, {"c:a"}}, []int{0, 1}},
		{"s0@m0[a,a*] s1@m0[a]", [][]string{{"c:a", "p:a*"}, {"c:a"}}, []int{0, 0}},
		{"s0@m0[a*] s1@m1[b] s2@m1[a]", [][]string{{"p:a*"}, {"c:b"}, {"c:a"}}, []int{0, 1, 1}},
	}
	third := []string{"none", "unsub", "sub", "psub", "unsub-then-publish"}
	if tier != "thorough" {
		layouts = layouts[:2]
	}
	for _, l := range layouts {
		for _, th := range third {
			l, th := l, th
			p := &schedmc.Program{
				Name: fmt.Sprintf("pubsub %s third=%s", l.name, th),
				Opts: simcluster.Opts{N: 2, Replicas: 1, Partitions: 3},
				DMap: "d", Key: "k",
			}
			p.Setup = func(cl *simcluster.Cluster, p *schedmc.Program) {
				r := &c14Run{}
				for i, subs := range l.subs {
					c := &c14Conn{member: l.mem[i], subs: map[string]bool{}}
					c.srv = simnet.NewSrvConn(fmt.Sprintf("sub-%d", i))
					svc := cl.Members[c.member].DB.VerifPubSub()
					for _, s := range subs {
						svc.VerifSubscribe(c.srv, s[0] == 'p', s[2:])
						c.subs[s] = true
					}
					c.srv.DetachedConn().WaitIdle()
					c.srv.Bytes()
					r.conns = append(r.conns, c)
					r.volatile = append(r.volatile, "")
				}
				// an extra connection on member 1, subscribed to "zz" only, for the sub/psub variants
				c := &c14Conn{member: 1, subs: map[string]bool{"c:zz": true}}
				c.srv = simnet.NewSrvConn("sub-extra")
				cl.Members[1].DB.VerifPubSub().VerifSubscribe(c.srv, false, "zz")
				c.srv.DetachedConn().WaitIdle()
				c.srv.Bytes()
				r.conns = append(r.conns, c)
				r.volatile = append(r.volatile, "")
				switch th {
				case "unsub", "unsub-then-publish":
					r.volatile[0] = "unsub"
				case "sub":
					r.volatile[len(r.conns)-1] = "sub"
				case "psub":
					r.volatile[len(r.conns)-1] = "psub"
				}
				c14Cur = r
			}
			p.Threads = []schedmc.Thread{
				{Name: "publisher-A via member0", Body: func(e *schedmc.Env) {
					e.H.Do(e.Tid, "publish", "a,A1", "A1", func() simcluster.Res { return c14Publish(e.Cl, 0, "a", "A1") })
					e.H.Do(e.Tid, "publish", "a,A2", "A2", func() simcluster.Res { return c14Publish(e.Cl, 0, "a", "A2") })
				}},
				{Name: "publisher-B via member1", Body: func(e *schedmc.Env) {
					e.H.Do(e.Tid, "publish", "a,B1", "B1", func() simcluster.Res { return c14Publish(e.Cl, 1, "a", "B1") })
				}},
			}
			if th != "none" {
				p.Threads = append(p.Threads, schedmc.Thread{Name: "subscription change", Body: func(e *schedmc.Env) {
					r := c14Cur
					switch th {
					case "unsub", "unsub-then-publish":
						c := r.conns[0]
						e.H.Do(e.Tid, "unsubscribe", "conn0", "", func() simcluster.Res {
							pat := !c.subs["c:a"]
							name := "a"
							if pat {
								name = "a*"
							}
							e.Cl.Members[c.member].DB.VerifPubSub().VerifUnsubscribe(c.srv, pat, false, name)
							return simcluster.Res{}
						})
						if th == "unsub-then-publish" {
							e.H.Do(e.Tid, "publish", "a,C1", "C1", func() simcluster.Res { return c14Publish(e.Cl, 1, "a", "C1") })
						}
					case "sub", "psub":
						c := r.conns[len(r.conns)-1]
						e.H.Do(e.Tid, th+"scribe", "extra", "", func() simcluster.Res {
							if th == "sub" {
								e.Cl.Members[c.member].DB.VerifPubSub().VerifSubscribe(c.srv, false, "a")
							} else {
								e.Cl.Members[c.member].DB.VerifPubSub().VerifSubscribe(c.srv, true, "a*")
							}
							return simcluster.Res{}
						})
					}
				}})
			}
			p.Judge = func(cl *simcluster.Cluster, h *schedmc.Hist, x *sched.Exec) (string, string) {
				r := c14Cur
				deliveries := map[string]int{} // payload -> frames over all connections
				var notes []string
				for ci, c := range r.conns {
					got := map[string]int{}
					var order []string
					for _, f := range frames(c.srv.Bytes()) {
						if len(f) >= 3 && (f[0] == "message" || f[0] == "pmessage") {
							pl := f[len(f)-1]
							got[pl]++
							deliveries[pl]++
							order = append(order, pl)
						}
					}
					notes = append(notes, fmt.Sprintf("c%d=%s", ci, strings.Join(order, "")))
					// matching subscriptions held for the whole run
					k := 0
					if c.subs["c:a"] {
						k++
					}
					if c.subs["p:a*"] {
						k++
					}
					stable := r.volatile[ci] == ""
					for _, pl := range []string{"A1", "A2", "B1", "C1"} {
						d := got[pl]
						if pl == "C1" && th != "unsub-then-publish" {
							if d != 0 {
								return "concurrent/phantom-message", fmt.Sprintf("conn%d received %q which nobody published", ci, pl)
							}
							continue
						}
						switch {
						case stable && k == 0 && d != 0:
							return "concurrent/delivery-to-non-subscriber", fmt.Sprintf("conn%d has no matching subscription and received %s %d time(s)", ci, pl, d)
						case stable && k == 1 && d != 1:
							return fmt.Sprintf("concurrent/delivered-%d-times", d), fmt.Sprintf("conn%d holds one matching subscription throughout and received %s %d times", ci, pl, d)
						case stable && k > 1 && (d < 1 || d > k):
							return "concurrent/delivery-count-out-of-range", fmt.Sprintf("conn%d holds %d matching subscriptions throughout and received %s %d times", ci, k, pl, d)
						case !stable && r.volatile[ci] == "unsub":
							// one of the k subscriptions is dropped at some point
							if d > k || (k > 1 && d < k-1) {
								return "concurrent/delivery-count-during-unsubscribe", fmt.Sprintf("conn%d (%d matching subscriptions, one being dropped) received %s %d times", ci, k, pl, d)
							}
							if pl == "C1" && d > k-1 {
								return "concurrent/delivery-after-unsubscribe", fmt.Sprintf("conn%d received %s %d times although it was published after the UNSUBSCRIBE had been acknowledged (%d other matching subscriptions)", ci, pl, d, k-1)
							}
						case !stable && d > 1:
							return "concurrent/delivery-count-during-subscribe", fmt.Sprintf("conn%d (one matching subscription being added) received %s %d times", ci, pl, d)
						}
					}
					// publisher A's messages arrive in its order
					lastA1, firstA2 := -1, -1
					for i, pl := range order {
						if pl == "A1" {
							lastA1 = i
						}
						if pl == "A2" && firstA2 < 0 {
							firstA2 = i
						}
					}
					if lastA1 >= 0 && firstA2 >= 0 && firstA2 < lastA1 {
						return "concurrent/publication-order", fmt.Sprintf("conn%d received %v: A2 before A1, both from one publisher", ci, order)
					}
				}
				for _, call := range h.Calls {
					if call.Op != "publish" {
						continue
					}
					if call.Res.Err != "" {
						return "concurrent/publish-error", fmt.Sprintf("PUBLISH %s failed: %s", call.Arg, call.Res.Err)
					}
					pl := call.In.(string)
					if int(call.Res.N) != deliveries[pl] {
						return "concurrent/publish-count", fmt.Sprintf("PUBLISH of %s returned %d, %d deliveries were made (%s)", pl, call.Res.N, deliveries[pl], strings.Join(notes, " "))
					}
				}
				h.Note = strings.Join(notes, " ")
				return "", ""
			}
			progs = append(progs, p)
		}
	}
	return progs
}

func init() { schedmc.Families["C14"] = c14ConcPrograms }
