package checks

import (
	"context"
	"fmt"
	"time"

	"github.com/olric-data/olric/internal/verif/core"
	"github.com/olric-data/olric/internal/verif/simcluster"
)

func init() {
	core.Register(&core.Check{ID: "smoke", Level: "other", Run: func(c *core.Ctx) {
		t0 := time.Now()
		cl := simcluster.New(simcluster.Opts{N: 3, Replicas: 2, WriteQ: 1, ReadQ: 1, Partitions: 7})
		fmt.Println("boot:", time.Since(t0))
		ctx := context.Background()
		for _, m := range cl.Members {
			fmt.Println(m.Name, "finished:", m.Finished, "coordinator:", m.DB.VerifRT().Discovery().IsCoordinator())
		}
		a, b := cl.Members[0], cl.Members[2]
		dmA, err := a.Emb.NewDMap("d")
		if err != nil {
			panic(err)
		}
		dmB, _ := b.Emb.NewDMap("d")
		t0 = time.Now()
		for i := 0; i < 20; i++ {
			if err := dmA.Put(ctx, fmt.Sprintf("k%d", i), i); err != nil {
				panic(err)
			}
		}
		for i := 0; i < 20; i++ {
			r, err := dmB.Get(ctx, fmt.Sprintf("k%d", i))
			if err != nil {
				panic(err)
			}
			v, _ := r.Int()
			if v != i {
				panic("mismatch")
			}
		}
		fmt.Println("40 ops:", time.Since(t0))
		cc, err := cl.ClusterClient(cl.Members[1])
		if err != nil {
			panic(err)
		}
		dmC, _ := cc.NewDMap("d")
		r, err := dmC.Get(ctx, "k3")
		fmt.Println("cc get:", r, err)
		n := 0
		for _, cp := range cl.Copies("d", "k3") {
			fmt.Printf("copy: %s %s part=%d ts=%d\n", cp.Member, cp.Kind, cp.PartID, cp.Timestamp)
			n++
		}
		fmt.Println("copies:", n, "sig len", len(cl.Signature()))
		c.Cov["explanation"] = "smoke"
	}})
}
