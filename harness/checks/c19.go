package checks

import (
	"bytes"
	"context"
	"fmt"
	"sort"
	"strconv"
	"strings"
	"time"

	olric "github.com/olric-data/olric"
	"github.com/olric-data/olric/internal/verif/clustermc"
	"github.com/olric-data/olric/internal/verif/core"
	"github.com/olric-data/olric/internal/verif/sched"
	"github.com/olric-data/olric/internal/verif/simcluster"
)

// C19: two DMaps whose names and keys collide in every way that matters; operations on either.

type c19Params struct {
	Name  string
	Opts  simcluster.Opts
	Entry string
	DMaps []string
	Keys  [][]string // per dmap
	Depth int
	// AfterLeave: the initial state is a replicated cluster that has lost a member after every key
	// had been written: the survivors hold, for some partitions, the primary role and the only
	// (backup) copy at the same time
	AfterLeave bool
	// Populated: the initial state holds every key of both DMaps (the interesting interference
	// needs both copies to exist; from there three events reach expire ; tick ; evict)
	Populated bool
	// Handover: after the keys were stored one more member joins and the new routing table is
	// pushed, but no fragment has moved yet: partitions have a previous owner that holds the data
	Handover bool
}

type c19Ent struct {
	Val []byte
	Exp int64
}

type c19Sys struct {
	P    *c19Params
	Cl   *simcluster.Cluster
	KV   []simcluster.KV
	DM   []olric.DMap
	Ref  []map[string]*c19Ent
	Toks [][]byte
}

func c19New(p *c19Params) *c19Sys {
	sched.ResetClock()
	s := &c19Sys{P: p, Cl: simcluster.New(p.Opts)}
	for i, d := range p.DMaps {
		kv, err := s.Cl.Entry(p.Entry, d, p.Keys[i][0])
		if err != nil {
			panic(err)
		}
		s.KV = append(s.KV, kv)
		s.Ref = append(s.Ref, map[string]*c19Ent{})
	}
	if p.AfterLeave {
		for d := range p.DMaps {
			for k := range p.Keys[d] {
				if fs := s.Apply(clustermc.Ev{K: "put", A: d, B: k}); len(fs) > 0 {
					panic(fmt.Sprintf("c19: initial put: %v", fs))
				}
			}
		}
		// the member that goes is the primary owner of the first key: the survivor holds that key in
		// its backup table only, and becomes the partition's primary owner
		s.Cl.Leave(s.Cl.Owner(s.Cl.Live()[0], p.DMaps[0], p.Keys[0][0]))
		if s.Cl.Stabilise() < 0 {
			panic("c19: cluster does not stabilise after the leave")
		}
		// the handles were opened on members that may be gone: reopen them
		s.KV = nil
		for i, d := range p.DMaps {
			kv, err := s.Cl.Entry(p.Entry, d, p.Keys[i][0])
			if err != nil {
				panic(err)
			}
			s.KV = append(s.KV, kv)
		}
	}
	if p.Populated {
		for d := range p.DMaps {
			for k := range p.Keys[d] {
				if fs := s.Apply(clustermc.Ev{K: "put", A: d, B: k}); len(fs) > 0 {
					panic(fmt.Sprintf("c19: initial put: %v", fs))
				}
			}
		}
	}
	if p.Handover {
		idx := 0
		for _, m := range s.Cl.Members {
			if m.Idx >= idx {
				idx = m.Idx + 1
			}
		}
		if _, err := s.Cl.StartMember(idx); err != nil {
			panic(err)
		}
		s.Cl.DeliverAll()
		s.Cl.Push()
	}
	if p.Entry == "CC" {
		cl, err := s.Cl.ClusterClient(s.Cl.Live()[0])
		if err != nil {
			panic(err)
		}
		for _, d := range p.DMaps {
			dm, _ := cl.NewDMap(d)
			s.DM = append(s.DM, dm)
		}
	}
	return s
}

func (s *c19Sys) live(d int, key string) *c19Ent {
	e := s.Ref[d][key]
	if e == nil || (e.Exp != 0 && sched.PeekNS()/1e6 >= e.Exp) {
		return nil
	}
	return e
}

// dump of one DMap's stored copies on every member (last access excluded)
func (s *c19Sys) dump(d int, liveOnly bool) string {
	var parts []string
	now := sched.PeekNS() / 1e6
	for _, m := range s.Cl.Live() {
		for _, f := range m.DB.VerifDMap().VerifFragments() {
			if f.Name != "dmap."+s.P.DMaps[d] {
				continue
			}
			for _, e := range f.Entries {
				if liveOnly && e.TTL != 0 && now >= e.TTL {
					continue
				}
				parts = append(parts, fmt.Sprintf("%s/%s/%d:%s=%x ttl=%d ts=%d", m.Name, f.Kind, f.PartID, e.Key, e.Value, e.TTL, e.Timestamp))
			}
		}
	}
	sort.Strings(parts)
	return strings.Join(parts, ";")
}

func (s *c19Sys) describe(e clustermc.Ev) string {
	d := s.P.DMaps[e.A]
	switch e.K {
	case "tick":
		return fmt.Sprintf("Tick(%dms)", e.B)
	case "evict":
		return "evict"
	case "balance":
		return "balancer-pass(every member)"
	case "destroy", "scan":
		return fmt.Sprintf("%s(%q)", e.K, d)
	}
	return fmt.Sprintf("%s(%q,%q)", e.K, d, s.P.Keys[e.A][e.B])
}

func c19Value(d, k int) string { return strconv.Itoa((d+1)*10 + k + 1) }

func (s *c19Sys) Apply(e clustermc.Ev) []clustermc.Fail {
	var fs []clustermc.Fail
	add := func(k, f string, a ...interface{}) {
		fs = append(fs, clustermc.Fail{Key: k, What: fmt.Sprintf(f, a...)})
	}
	if e.K == "tick" {
		sched.AdvanceNS(int64(e.B) * 1e6)
		return nil
	}
	if e.K == "balance" {
		for _, m := range s.Cl.Live() {
			s.Cl.Balance(m)
		}
		return nil
	}
	if e.K == "evict" {
		before := []string{s.dump(0, true), s.dump(1, true)}
		for _, m := range s.Cl.Live() {
			for part := uint64(0); part < s.Cl.O.Partitions; part++ {
				m.DB.VerifDMap().VerifEvictAll(part)
			}
		}
		for d := range s.P.DMaps {
			if after := s.dump(d, true); after != before[d] {
				add("evict/live-entries-changed", "an eviction pass changed live entries of %q: before {%s} after {%s}", s.P.DMaps[d], before[d], after)
			}
		}
		return fs
	}
	d, other := e.A, 1-e.A
	kv := s.KV[d]
	otherBefore := s.dump(other, false)
	nowMS := sched.PeekNS() / 1e6
	switch e.K {
	case "put":
		key := s.P.Keys[d][e.B]
		val := []byte(c19Value(d, e.B))
		if r := kv.Put(key, val, simcluster.PutOpt{}); r.Err != "" {
			add("result/put", "Put failed: %s", r.Err)
		} else {
			s.Ref[d][key] = &c19Ent{Val: val}
		}
	case "del":
		key := s.P.Keys[d][e.B]
		if r := kv.Del(key); r.Err != "" {
			add("result/del", "Delete failed: %s", r.Err)
		} else {
			delete(s.Ref[d], key)
		}
	case "incr":
		key := s.P.Keys[d][e.B]
		l := s.live(d, key)
		base := int64(0)
		numeric := true
		if l != nil {
			var err error
			base, err = strconv.ParseInt(string(l.Val), 10, 64)
			numeric = err == nil
		}
		r := kv.Incr(key, 1)
		if !numeric {
			delete(s.Ref[d], key) // outcome on a lock token is not fixed; re-read below keeps the model honest
			if g := kv.Get(key); g.Err == "" {
				s.Ref[d][key] = &c19Ent{Val: g.Val, Exp: g.TTL}
			}
			break
		}
		if r.Err != "" {
			add("result/incr", "Incr failed: %s", r.Err)
		} else if r.N != base+1 {
			add("result/incr-value", "Incr on %q/%q returned %d, expected %d: another DMap's data leaked or was lost", s.P.DMaps[d], key, r.N, base+1)
		} else {
			ne := &c19Ent{Val: []byte(strconv.FormatInt(r.N, 10))}
			if l != nil {
				ne.Exp = l.Exp
			}
			s.Ref[d][key] = ne
		}
	case "lock":
		key := s.P.Keys[d][e.B]
		l := s.live(d, key)
		r := kv.Lock(key, 0, 0)
		switch {
		case l == nil && r.Err != "":
			add("result/lock-refused", "Lock on free key %q/%q failed with %s (the same key is used in the other DMap)", s.P.DMaps[d], key, r.Err)
		case l != nil && r.Err != "locknotacquired":
			add("result/lock-granted", "Lock on held/occupied key %q/%q returned %q", s.P.DMaps[d], key, r.Err)
		case r.Err == "":
			s.Toks = append(s.Toks, r.Token)
			s.Ref[d][key] = &c19Ent{Val: r.Token}
		}
	case "expire":
		key := s.P.Keys[d][e.B]
		l := s.live(d, key)
		r := kv.Expire(key, 2500*time.Millisecond)
		switch {
		case l == nil && r.Err != "notfound":
			add("result/expire-missing", "Expire on missing key %q/%q returned %q", s.P.DMaps[d], key, r.Err)
		case l != nil && r.Err != "":
			add("result/expire", "Expire failed: %s", r.Err)
		case l != nil:
			l.Exp = nowMS + 2500
		}
	case "destroy":
		if r := kv.Destroy(); r.Err != "" {
			add("result/destroy", "Destroy failed: %s", r.Err)
		} else {
			s.Ref[d] = map[string]*c19Ent{}
			if left := s.dump(d, false); left != "" {
				add("destroy/copies-left", "after Destroy(%q) these copies remain: %s", s.P.DMaps[d], left)
			}
			for _, m := range s.Cl.Live() {
				for _, f := range m.DB.VerifDMap().VerifFragments() {
					if f.Name == "dmap."+s.P.DMaps[d] {
						add("destroy/fragment-left", "after Destroy(%q) member %s still has a %s fragment on partition %d", s.P.DMaps[d], m.Name, f.Kind, f.PartID)
					}
				}
			}
		}
	case "scan":
		if s.DM == nil {
			break
		}
		it, err := s.DM[d].Scan(context.Background())
		if err != nil {
			add("result/scan", "Scan failed: %v", err)
			break
		}
		got := map[string]int{}
		for n := 0; it.Next(); n++ {
			got[it.Key()]++
			if n > 1000 {
				add("scan/not-terminating", "iterator over %q did not finish within 1000 keys", s.P.DMaps[d])
				break
			}
		}
		it.Close()
		for k, n := range got {
			if s.Ref[d][k] == nil {
				add("scan/foreign-or-deleted-key", "Scan(%q) yields %q which is not a key of this DMap", s.P.DMaps[d], k)
			} else if n > 1 {
				add("scan/duplicate", "Scan(%q) yields %q %d times", s.P.DMaps[d], k, n)
			}
		}
		for k := range s.Ref[d] {
			if s.live(d, k) != nil && got[k] == 0 {
				add("scan/missed", "Scan(%q) misses %q", s.P.DMaps[d], k)
			}
		}
	}
	if after := s.dump(other, false); after != otherBefore {
		add("isolation/other-dmap-changed/op="+e.K, "%s changed the stored entries of the other DMap %q: before {%s} after {%s}", s.describe(e), s.P.DMaps[other], otherBefore, after)
	}
	return fs
}

func (s *c19Sys) tok(v []byte) string {
	for i, t := range s.Toks {
		if bytes.Equal(t, v) {
			return fmt.Sprintf("tok#%d", i)
		}
	}
	return string(v)
}

func (s *c19Sys) Canon() string {
	var b strings.Builder
	now := sched.PeekNS() / 1e6
	// which DMap names every member's service has registered: state that no read shows but that
	// decides what a later Destroy finds (a name is dropped by Destroy and registered again by the
	// next command that reaches the member)
	for _, m := range s.Cl.Live() {
		fmt.Fprintf(&b, "N%s%v;", m.Name[len(m.Name)-1:], m.DB.VerifDMap().VerifDMapNames())
	}
	for d := range s.P.DMaps {
		var ks []string
		for k := range s.Ref[d] {
			ks = append(ks, k)
		}
		sort.Strings(ks)
		for _, k := range ks {
			e := s.Ref[d][k]
			rel := int64(0)
			if e.Exp != 0 {
				rel = e.Exp - now
				if rel <= 0 {
					rel = -1
				}
			}
			fmt.Fprintf(&b, "R%d[%s=%s %+d]", d, k, s.tok(e.Val), rel)
		}
		// stored copies: key, value, relative ttl per member/kind
		for _, m := range s.Cl.Live() {
			for _, f := range m.DB.VerifDMap().VerifFragments() {
				if f.Name != "dmap."+s.P.DMaps[d] {
					continue
				}
				fmt.Fprintf(&b, "F%d%s%s%d(", d, m.Name[len(m.Name)-1:], f.Kind[:1], f.PartID)
				for _, e := range f.Entries {
					rel := int64(0)
					if e.TTL != 0 {
						rel = e.TTL - now
						if rel <= 0 {
							rel = -1
						}
					}
					fmt.Fprintf(&b, "%s=%s%+d,", e.Key, s.tok(e.Value), rel)
				}
				b.WriteByte(')')
			}
		}
	}
	return b.String()
}

// Check: every key of both DMaps reads back per its own model from every member.
func (s *c19Sys) Check() []clustermc.Fail {
	var fs []clustermc.Fail
	for d, name := range s.P.DMaps {
		for _, k := range s.P.Keys[d] {
			l := s.live(d, k)
			for _, m := range s.Cl.Live() {
				dm, err := m.Emb.NewDMap(name)
				if err != nil {
					fs = append(fs, clustermc.Fail{Key: "usable/newdmap", What: fmt.Sprintf("NewDMap(%q) on %s: %v", name, m.Name, err)})
					continue
				}
				r := simcluster.WrapDMap("", dm).Get(k)
				if l == nil && r.Err != "notfound" {
					fs = append(fs, clustermc.Fail{Key: "read/visible-but-absent", What: fmt.Sprintf("%q/%q is absent (deleted, destroyed, expired or never stored) but Get via %s returns %q err=%q", name, k, m.Name, s.tok(r.Val), r.Err)})
				}
				if l != nil && (r.Err != "" || !bytes.Equal(r.Val, l.Val)) {
					fs = append(fs, clustermc.Fail{Key: "read/wrong-value", What: fmt.Sprintf("%q/%q should read %q, Get via %s returns %q err=%q", name, k, s.tok(l.Val), m.Name, s.tok(r.Val), r.Err)})
				}
			}
		}
	}
	return fs
}

// c19KeyPair picks, on the two-member cluster of the populated configurations, one key whose
// partition has the same primary owner in both DMaps and one key for which the owners differ.
func c19KeyPair(names []string) (same, diff string) {
	sched.ResetClock()
	cl := simcluster.New(simcluster.Opts{N: 2, Replicas: 2, WriteQ: 1, ReadQ: 1, Partitions: 3})
	view := cl.Live()[0]
	same = cl.FindKey("s", func(k string) bool { return cl.Owner(view, names[0], k) == cl.Owner(view, names[1], k) })
	diff = cl.FindKey("t", func(k string) bool { return cl.Owner(view, names[0], k) != cl.Owner(view, names[1], k) })
	return
}

func c19Specs(tier string) []*clustermc.Spec {
	quick := tier != "thorough"
	type cf struct {
		n, r  int
		entry string
		names []string
		keys  [][]string
	}
	grid := [][]string{{"ab", "a"}, {"x", "dmap.x"}}
	keysFor := map[string][][]string{"ab": {{"c"}, {"bc", "c"}}, "x": {{"k"}, {"k", "x"}}}
	cfs := []cf{
		{2, 2, "EO", grid[0], keysFor["ab"]}, {3, 2, "EN", grid[0], keysFor["ab"]}, {2, 1, "CC", grid[0], keysFor["ab"]},
		{2, 2, "CC", grid[1], keysFor["x"]},
	}
	depth := 3
	// a single member (every operation is local, nothing re-registers a DMap name behind the
	// handle's back) is explored one level deeper: put ; destroy ; put ; destroy
	cfs = append(cfs, cf{1, 1, "EO", grid[0], keysFor["ab"]})
	// a replicated cluster that has lost a member (n < 0 marks the configuration: 2 members before
	// the leave)
	cfs = append(cfs, cf{-2, 2, "EO", grid[0], keysFor["ab"]})
	if !quick {
		depth = 4
		cfs = append(cfs, cf{3, 2, "CC", grid[0], keysFor["ab"]}, cf{3, 2, "EN", grid[1], keysFor["x"]})
	}
	// populated initial states (n >= 100 marks the configuration). The third name pair is what a
	// character-set trim of the internal fragment name "dmap.<name>" makes of a name ("data" -> "ta");
	// its two keys are chosen so that the copies of both DMaps share their owners for one key and do
	// not for the other.
	same, diff := c19KeyPair([]string{"data", "ta"})
	cfs = append(cfs, cf{102, 2, "EO", grid[0], keysFor["ab"]}, cf{102, 2, "CC", grid[1], keysFor["x"]},
		cf{102, 2, "EN", []string{"data", "ta"}, [][]string{{same, diff}, {same, diff}}})
	// DMap names and keys that are protocol keywords (the member-local and replica flags of the internal
	// commands, option names of DM.PUT), through the wire paths
	kw := [][]string{{"NX", "k"}, {"NX", "k"}}
	cfs = append(cfs, cf{2, 2, "CC", []string{"LC", "RC"}, kw}, cf{102, 2, "RN", []string{"LC", "RC"}, kw})
	// populated, then a join whose hand-over has not started (n >= 200 marks the configuration)
	cfs = append(cfs, cf{201, 1, "EO", grid[0], keysFor["ab"]}, cf{202, 2, "EO", grid[0], keysFor["ab"]})
	var out []*clustermc.Spec
	for _, c := range cfs {
		depth := depth
		if c.n == 1 {
			depth++
		}
		after := c.n < 0
		if after {
			c.n = -c.n
		}
		handover := c.n >= 200
		if handover {
			c.n -= 100
		}
		populated := c.n >= 100
		if populated {
			c.n -= 100
		}
		p := &c19Params{Name: fmt.Sprintf("dmaps=%q N=%d R=%d entry=%s", c.names, c.n, c.r, c.entry), Entry: c.entry, DMaps: c.names, Keys: c.keys, Depth: depth, AfterLeave: after, Populated: populated, Handover: handover,
			Opts: simcluster.Opts{N: c.n, Replicas: c.r, WriteQ: 1, ReadQ: 1, Partitions: 3}}
		if after {
			p.Name += " after-a-leave"
		}
		if populated {
			p.Name += " populated"
		}
		if handover {
			p.Name += " then-a-join-not-yet-balanced"
		}
		var alpha []clustermc.Ev
		for d := range c.names {
			for k := range c.keys[d] {
				ops := []string{"put", "del", "incr", "lock", "expire"}
				if handover {
					// during a hand-over the statements fix the meaning of reads, plain writes and
					// deletes (C03) and of Destroy (this property) only
					ops = []string{"put", "del"}
				}
				if after {
					// after the loss of a member the statements fix the meaning of plain Put / Get /
					// Delete (C02) and of Destroy (this property); conditional and read-modify-write
					// operations on a key whose only copy is a replica are not defined by any of them
					ops = []string{"put", "del"}
				}
				for _, op := range ops {
					alpha = append(alpha, clustermc.Ev{K: op, A: d, B: k})
				}
			}
			alpha = append(alpha, clustermc.Ev{K: "destroy", A: d})
			if c.entry == "CC" {
				alpha = append(alpha, clustermc.Ev{K: "scan", A: d})
			}
		}
		alpha = append(alpha, clustermc.Ev{K: "tick", B: 3000}, clustermc.Ev{K: "evict"})
		if handover {
			alpha = append(alpha, clustermc.Ev{K: "balance"})
		}
		proto := &c19Sys{P: p}
		out = append(out, &clustermc.Spec{
			Name: p.Name, Depth: depth,
			New:      func() interface{} { return c19New(p) },
			Events:   func(s interface{}) []clustermc.Ev { return alpha },
			Apply:    func(s interface{}, e clustermc.Ev) []clustermc.Fail { return s.(*c19Sys).Apply(e) },
			Canon:    func(s interface{}) string { return s.(*c19Sys).Canon() },
			Check:    func(s interface{}) []clustermc.Fail { return s.(*c19Sys).Check() },
			Describe: proto.describe,
			NonTrivial: func(s interface{}) bool {
				sys := s.(*c19Sys)
				return len(sys.Ref[0]) > 0 && len(sys.Ref[1]) > 0
			},
		})
	}
	return out
}

func init() {
	clustermc.Specs["C19"] = c19Specs
	core.Register(&core.Check{ID: "C19", Level: "model_checking", Run: func(c *core.Ctx) {
		c.Cov["rule"] = "BFS over sequences of {Put, Delete, Incr, Lock, Expire, Destroy, Scan (cluster client), clock tick past the expiry, eviction pass} applied to either of two DMaps whose (name,key) pairs collide (\"ab\"+\"c\" vs \"a\"+\"bc\", identical keys, \"x\" vs \"dmap.x\"); two independent reference models; after every step the other DMap's stored copies must be byte-identical, after Destroy no copy or fragment of the destroyed DMap may exist on any member; non-trivial = distinct states in which both DMaps hold data"
		clustermc.RunFamily(c, "C19")
		c.Cov["traces_validated_against_impl"] = 0
	}})
}
