package checks

import (
	"fmt"
	"os"

	"github.com/olric-data/olric/internal/verif/clustermc"
	"github.com/olric-data/olric/internal/verif/core"
)

// dbg: run the events of one spec one by one from the initial state, printing progress
// (harness debugging aid: DBG_FAMILY=<family> DBG_SPEC=<index> vcheck dbg quick).
func init() {
	core.Register(&core.Check{ID: "dbg", Level: "other", Run: func(c *core.Ctx) {
		fam := os.Getenv("DBG_FAMILY")
		var si int
		fmt.Sscan(os.Getenv("DBG_SPEC"), &si)
		sp := clustermc.Specs[fam](c.Tier)[si]
		s := sp.New()
		for _, e := range sp.Events(s) {
			s2 := sp.New()
			fmt.Println("apply", sp.Describe(e))
			fs := sp.Apply(s2, e)
			fmt.Println("  ->", fs)
			fmt.Println("  check", sp.Check(s2))
		}
		c.Cov["explanation"] = "debug"
	}})
}

func init() {
	core.Register(&core.Check{ID: "dbg12", Level: "other", Run: func(c *core.Ctx) {
		var b, a, bal int
		fmt.Sscan(os.Getenv("DBG_CASE"), &b, &a, &bal)
		cs := c12FragCase{Before: b, After: a, Balance: bal, R: 1}
		fmt.Println("case:", cs)
		fs := c12RunFrag(cs)
		for _, f := range fs {
			fmt.Println("  FAIL", f.Key, "::", f.What)
		}
		fmt.Println("done, fails:", len(fs))
		c.Cov["explanation"] = "debug"
	}})
}
