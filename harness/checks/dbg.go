package checks

import (
	"encoding/json"
	"fmt"
	"os"
	"runtime"
	"strings"

	"github.com/olric-data/olric/internal/verif/clustermc"
	"github.com/olric-data/olric/internal/verif/core"
	"github.com/olric-data/olric/internal/verif/schedmc"
	"github.com/olric-data/olric/internal/verif/simcluster"
	"github.com/olric-data/olric/internal/verif/simnet"
)

// dbg: run the events of one spec one by one from the initial state, printing progress
// (harness debugging aid: DBG_FAMILY=<family> DBG_SPEC=<index> vcheck dbg quick).
func init() {
	core.Register(&core.Check{ID: "dbg", Level: "other", Run: func(c *core.Ctx) {
		fam := os.Getenv("DBG_FAMILY")
		var si int
		fmt.Sscan(os.Getenv("DBG_SPEC"), &si)
		sp := clustermc.Specs[fam](c.Tier)[si]
		s := sp.New()
		for _, e := range sp.Events(s) {
			s2 := sp.New()
			fmt.Println("apply", sp.Describe(e))
			fs := sp.Apply(s2, e)
			fmt.Println("  ->", fs)
			fmt.Println("  check", sp.Check(s2))
		}
		c.Cov["explanation"] = "debug"
	}})
}

func init() {
	core.Register(&core.Check{ID: "dbg12", Level: "other", Run: func(c *core.Ctx) {
		var b, a, bal int
		fmt.Sscan(os.Getenv("DBG_CASE"), &b, &a, &bal)
		cs := c12FragCase{Before: b, After: a, Balance: bal, R: 1}
		fmt.Println("case:", cs)
		fs := c12RunFrag(cs)
		for _, f := range fs {
			fmt.Println("  FAIL", f.Key, "::", f.What)
		}
		fmt.Println("done, fails:", len(fs))
		c.Cov["explanation"] = "debug"
	}})
}

// dbgpath: replay the path of a clustermc replay file step by step, printing the copies of every
// key and the routing of its partition after each step (DBG_REPLAY=<file>).
func init() {
	core.Register(&core.Check{ID: "dbgpath", Level: "other", Run: func(c *core.Ctx) {
		b, err := os.ReadFile(os.Getenv("DBG_REPLAY"))
		if err != nil {
			panic(err)
		}
		var f struct {
			Replay struct {
				Family string         `json:"family"`
				Tier   string         `json:"tier"`
				Spec   int            `json:"spec"`
				Path   []clustermc.Ev `json:"path"`
			} `json:"replay"`
		}
		if err := json.Unmarshal(b, &f); err != nil {
			panic(err)
		}
		sp := clustermc.Specs[f.Replay.Family](f.Replay.Tier)[f.Replay.Spec]
		s := sp.New()
		dump := func() {
			sys, ok := s.(*c03Sys)
			if !ok {
				return
			}
			for _, m := range sys.Cl.Live() {
				t := m.DB.VerifRT().VerifTable()
				p := sys.Cl.PartID("d", sys.Keys[len(sys.Keys)-1])
				fmt.Printf("    %s boot=%v part%d owners=%s backups=%s pending=%d\n", m.Name, m.DB.VerifRT().IsBootstrapped(), p, namesOf(t[p].Owners), namesOf(t[p].Backups), sys.Cl.Pending(m))
				if os.Getenv("DBG_ALLPARTS") != "" {
					for q := range t {
						fmt.Printf("      part%d owners=%s\n", q, namesOf(t[q].Owners))
					}
				}
			}
			for _, k := range sys.Keys {
				for _, cp := range sys.Cl.Copies("d", k) {
					fmt.Printf("    copy %s: %s %s part=%d val=%q\n", k, cp.Member, cp.Kind, cp.PartID, cp.Value)
				}
			}
		}
		fmt.Println("spec:", sp.Name)
		dump()
		for _, e := range f.Replay.Path {
			fs := sp.Apply(s, e)
			fmt.Println("==", sp.Describe(e), "->", fs)
			dump()
		}
		fmt.Println("== CHECK:", sp.Check(s))
		dump()
		c.Cov["explanation"] = "debug"
	}})
}

// dbg02: replay one C02 fault schedule (DBG_REPLAY=<file>) and print the trace.
func init() {
	core.Register(&core.Check{ID: "dbg02", Level: "other", Run: func(c *core.Ctx) {
		b, err := os.ReadFile(os.Getenv("DBG_REPLAY"))
		if err != nil {
			panic(err)
		}
		var f struct {
			Replay struct {
				Cfg     c02Cfg `json:"cfg"`
				Choices []int  `json:"choices"`
			} `json:"replay"`
		}
		if err := json.Unmarshal(b, &f); err != nil {
			panic(err)
		}
		c02Trace = true
		r := c02Execute(f.Replay.Cfg, f.Replay.Choices)
		for _, l := range r.cl.Log {
			fmt.Println("  log:", l)
		}
		for _, p := range r.points {
			if p.Ch != 0 {
				fmt.Println("fault:", p.Desc)
			}
		}
		for _, o := range r.out {
			fmt.Println("FAIL", o.Key, "::", o.What)
		}
		c.Cov["explanation"] = "debug"
	}})
}

// dbgsched: run the default schedule of the programs of a schedmc family whose name contains
// DBG_MATCH and print history and verdict.
func init() {
	core.Register(&core.Check{ID: "dbgsched", Level: "other", Run: func(c *core.Ctx) {
		for i, p := range schedmc.Families[os.Getenv("DBG_FAMILY")](c.Tier) {
			if !strings.Contains(p.Name, os.Getenv("DBG_MATCH")) {
				continue
			}
			k, w, h, x := schedmc.Replay(p, nil)
			fmt.Printf("#%d %s\n   hist: %s\n   verdict: %q %s (points %d)\n", i, p.Name, h, k, w, len(x.Points))
			if os.Getenv("DBG_LEAK") != "" {
				g0 := runtime.NumGoroutine()
				st := schedmc.Explore(p, 3, 0, 1, 3000)
				fmt.Printf("   explored %d executions, capped=%v, violations %d\n", st.Execs, st.Capped, len(st.Violations))
				for _, v := range st.Violations {
					fmt.Printf("   VIOL %s: %s\n      hist %s\n      choices %v\n", v.Key, v.What, v.Hist, v.Choices)
				}
				runtime.GC()
				var ms runtime.MemStats
				runtime.ReadMemStats(&ms)
				fmt.Printf("   goroutines before %d, after 50 more executions %d; heap %d MB\n", g0, runtime.NumGoroutine(), ms.HeapAlloc>>20)
				if os.Getenv("DBG_LEAK") == "stacks" {
					buf := make([]byte, 1<<20)
					n := runtime.Stack(buf, true)
					os.WriteFile("/tmp/leak_stacks.txt", buf[:n], 0o644)
				}
			}
		}
		c.Cov["explanation"] = "debug"
	}})
}

// dbgschedreplay: replay a schedmc replay file (DBG_REPLAY) with the network trace.
func init() {
	core.Register(&core.Check{ID: "dbgschedreplay", Level: "other", Run: func(c *core.Ctx) {
		b, _ := os.ReadFile(os.Getenv("DBG_REPLAY"))
		var f struct {
			Replay struct {
				Family  string `json:"family"`
				Tier    string `json:"tier"`
				Prog    int    `json:"prog"`
				Choices []int  `json:"choices"`
			} `json:"replay"`
		}
		json.Unmarshal(b, &f)
		p := schedmc.Families[f.Replay.Family](f.Replay.Tier)[f.Replay.Prog]
		k, w, h, _ := schedmc.Replay(p, f.Replay.Choices)
		for _, l := range simnet.N.Log {
			fmt.Println("  net:", l)
		}
		fmt.Printf("%s\n hist: %s\n verdict: %q %s\n", p.Name, h, k, w)
		c.Cov["explanation"] = "debug"
	}})
}

// dbgchain: search member-name assignments and partition counts for a join sequence 1 -> 2 -> 3
// members (no balancer pass in between) after which some partition lists three owners.
func init() {
	core.Register(&core.Check{ID: "dbgchain", Level: "other", Run: func(c *core.Ctx) {
		for _, parts := range []uint64{3, 7} {
			for a := 0; a < 9; a++ {
				for b := 0; b < 9; b++ {
					for d := 0; d < 9; d++ {
						if a == b || a == d || b == d {
							continue
						}
						cl := simcluster.New(simcluster.Opts{N: 1, Replicas: 1, WriteQ: 1, ReadQ: 1, Partitions: parts, TableSize: 1 << 16, PortOf: []int{a, b, d}})
						dm, _ := cl.Live()[0].Emb.NewDMap("d")
						kv := simcluster.WrapDMap("", dm)
						for p := uint64(0); p < parts; p++ {
							p := p
							kv.Put(cl.FindKey("bg", func(k string) bool { return cl.PartID("d", k) == p }), []byte("v"), simcluster.PutOpt{})
						}
						for j := 1; j <= 2; j++ {
							cl.StartMember(j)
							cl.DeliverAll()
							cl.Push()
							if j == 1 {
								for p := uint64(0); p < parts; p++ {
									p := p
									kv.Put(cl.FindKey("mid", func(k string) bool { return cl.PartID("d", k) == p }), []byte("v"), simcluster.PutOpt{})
								}
							}
						}
						t := cl.Live()[0].DB.VerifRT().VerifTable()
						n := 0
						for p := uint64(0); p < parts; p++ {
							if len(t[p].Owners) >= 3 {
								n++
							}
						}
						if n > 0 {
							fmt.Printf("P=%d ports=%d,%d,%d chains=%d\n", parts, a, b, d, n)
						}
					}
				}
			}
		}
		c.Cov["explanation"] = "debug"
	}})
}
