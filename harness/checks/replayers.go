package checks

import (
	"bytes"
	"encoding/json"

	"github.com/olric-data/olric/internal/verif/core"
)

// Replayers of the grid checks: the replay object of their violation files is the case itself.
func init() {
	strict := func(raw json.RawMessage, v interface{}) bool {
		d := json.NewDecoder(bytes.NewReader(raw))
		d.DisallowUnknownFields()
		return d.Decode(v) == nil
	}
	core.Replayers = append(core.Replayers, func(id string, raw json.RawMessage) (bool, []string) {
		var out []string
		switch id {
		case "C05":
			var cs c05Case
			if !strict(raw, &cs) || cs.Kind == "" {
				return false, nil
			}
			for _, f := range c05Run(cs) {
				out = append(out, f.Key+": "+cs.String()+": "+f.What)
			}
			return true, out
		case "C06":
			var rc c06ReadCase
			if strict(raw, &rc) && rc.Entry != "" {
				if k, w := c06RunRead(rc); k != "" {
					out = append(out, k+": "+rc.String()+": "+w)
				}
				return true, out
			}
			var mc c06MergeCase
			if strict(raw, &mc) {
				if k, w := c06RunMerge(mc); k != "" {
					out = append(out, k+": "+w)
				}
				return true, out
			}
		case "C12":
			var cs c12FragCase
			if !strict(raw, &cs) {
				return false, nil
			}
			for _, f := range c12RunFrag(cs) {
				out = append(out, f.Key+": "+cs.String()+": "+f.What)
			}
			return true, out
		case "C17":
			var cs c17Case
			if !strict(raw, &cs) {
				return false, nil
			}
			for _, f := range c17Run(cs) {
				out = append(out, f.Key+": "+cs.String()+": "+f.What)
			}
			return true, out
		case "C18":
			var cs c18Case
			if !strict(raw, &cs) || cs.Path == "" {
				return false, nil
			}
			if k, w := c18Run(cs); k != "" {
				out = append(out, k+": "+cs.String()+": "+w)
			}
			return true, out
		}
		return false, nil
	})
}
