package checks

import (
	"fmt"
	"sort"
	"strings"

	"github.com/olric-data/olric/internal/verif/clustermc"
	"github.com/olric-data/olric/internal/verif/confx"
	"github.com/olric-data/olric/internal/verif/core"
	"github.com/olric-data/olric/internal/verif/sched"
	"github.com/olric-data/olric/internal/verif/schedmc"
	"github.com/olric-data/olric/internal/verif/simcluster"
	"github.com/olric-data/olric/internal/verif/simnet"
	"github.com/tidwall/match"
	"github.com/tidwall/redcon"
)

// C14: pub/sub. Connections subscribe / psubscribe / unsubscribe / disconnect on their member,
// messages are published through any member; every delivery and every introspection answer is
// compared with a reference model of the subscriptions.

var c14Channels = []string{"a", "b"}
var c14Patterns = []string{"a*", "b"}

type c14Conn struct {
	member int
	srv    *simnet.SrvConn
	gone   bool
	subs   map[string]bool // "c:<channel>" / "p:<pattern>"
}

type c14Params struct {
	Name  string
	N     int
	Depth int
}

type c14Sys struct {
	P     *c14Params
	Cl    *simcluster.Cluster
	Conns []*c14Conn
	Seq   int
	// observations of the last PUBLISH (exported to the conformance replay)
	LastCount int
	LastRecv  []int
}

func c14New(p *c14Params) *c14Sys {
	sched.ResetClock()
	s := &c14Sys{P: p, Cl: simcluster.New(simcluster.Opts{N: p.N, Replicas: 1, Partitions: 3})}
	for i := 0; i < 3; i++ {
		m := 0
		if i == 2 {
			m = p.N - 1
		}
		s.Conns = append(s.Conns, &c14Conn{member: m, subs: map[string]bool{}})
	}
	return s
}

func (s *c14Sys) describe(e clustermc.Ev) string {
	switch e.K {
	case "sub", "unsub":
		return fmt.Sprintf("%sscribe(conn%d,%q)", e.K, e.A, c14Channels[e.B])
	case "psub", "punsub":
		return fmt.Sprintf("%s(conn%d,%q)", e.K, e.A, c14Patterns[e.B])
	case "unsuball", "punsuball", "disconnect":
		return fmt.Sprintf("%s(conn%d)", e.K, e.A)
	case "msub", "munsub":
		return fmt.Sprintf("%sscribe(conn%d, every channel in one command, order %d)", e.K[1:], e.A, e.B)
	case "mpsub", "mpunsub":
		return fmt.Sprintf("%sscribe(conn%d, every pattern in one command, order %d)", e.K[1:], e.A, e.B)
	case "publish":
		return fmt.Sprintf("PUBLISH(via member%d,%q)", e.A, c14Channels[e.B])
	}
	return e.String()
}

func (s *c14Sys) Events() []clustermc.Ev {
	var evs []clustermc.Ev
	for c, conn := range s.Conns {
		// a connection that has gone away can be replaced by a NEW connection of the same client
		// (the first subscribe command after the disconnect opens it)
		for i := range c14Channels {
			evs = append(evs, clustermc.Ev{K: "sub", A: c, B: i})
		}
		for i := range c14Patterns {
			evs = append(evs, clustermc.Ev{K: "psub", A: c, B: i})
		}
		// several names in one command
		evs = append(evs, clustermc.Ev{K: "msub", A: c, B: 0}, clustermc.Ev{K: "mpsub", A: c, B: 1})
		if conn.srv != nil && !conn.gone {
			evs = append(evs, clustermc.Ev{K: "munsub", A: c, B: 1}, clustermc.Ev{K: "mpunsub", A: c, B: 0}) // only a connection that has subscribed once is in subscriber mode
			for i := range c14Channels {
				evs = append(evs, clustermc.Ev{K: "unsub", A: c, B: i})
			}
			for i := range c14Patterns {
				evs = append(evs, clustermc.Ev{K: "punsub", A: c, B: i})
			}
			evs = append(evs, clustermc.Ev{K: "unsuball", A: c}, clustermc.Ev{K: "punsuball", A: c}, clustermc.Ev{K: "disconnect", A: c})
		}
	}
	for m := 0; m < s.P.N; m++ {
		for i := range c14Channels {
			evs = append(evs, clustermc.Ev{K: "publish", A: m, B: i})
		}
	}
	return evs
}

// send issues a subscriber-mode command on a connection: the first one goes through the member's
// command multiplexer (it detaches the connection and starts the background runner), later ones
// are read by that runner.
func (s *c14Sys) send(c *c14Conn, args ...string) string {
	m := s.Cl.Members[c.member]
	if c.gone {
		c.srv, c.gone = nil, false // a new connection
	}
	if c.srv == nil {
		c.srv = simnet.NewSrvConn(fmt.Sprintf("sub-conn-%d", len(args)))
		cmd := redcon.Command{}
		for _, a := range args {
			cmd.Args = append(cmd.Args, []byte(a))
		}
		m.DB.VerifServe(c.srv, cmd)
		d := c.srv.DetachedConn()
		if d == nil {
			return "the connection was not put into subscriber mode: " + string(c.srv.Bytes())
		}
		if !d.WaitIdle() {
			return "the background runner of the connection did not start"
		}
		return ""
	}
	if !c.srv.DetachedConn().Send(args...) {
		return "the background runner did not take the command (connection closed?)"
	}
	return ""
}

// frames parses the RESP arrays a subscriber connection received since the last call.
func frames(b []byte) [][]string {
	var out [][]string
	for len(b) > 0 {
		n, r := redcon.ReadNextRESP(b)
		if n == 0 {
			break
		}
		b = b[n:]
		var f []string
		r.ForEach(func(x redcon.RESP) bool { f = append(f, string(x.Data)); return true })
		out = append(out, f)
	}
	return out
}

func (s *c14Sys) Apply(e clustermc.Ev) []clustermc.Fail {
	var fs []clustermc.Fail
	add := func(k, f string, a ...interface{}) {
		fs = append(fs, clustermc.Fail{Key: k, What: fmt.Sprintf(f, a...)})
	}
	switch e.K {
	case "sub", "psub", "unsub", "punsub", "unsuball", "punsuball", "msub", "munsub", "mpsub", "mpunsub":
		c := s.Conns[e.A]
		var args []string
		ordered := func(names []string) []string {
			out := append([]string{}, names...)
			if e.B == 1 {
				for i, j := 0, len(out)-1; i < j; i, j = i+1, j-1 {
					out[i], out[j] = out[j], out[i]
				}
			}
			return out
		}
		switch e.K {
		case "msub":
			args = append([]string{"subscribe"}, ordered(c14Channels)...)
			for _, ch := range c14Channels {
				c.subs["c:"+ch] = true
			}
		case "munsub":
			args = append([]string{"unsubscribe"}, ordered(c14Channels)...)
			for _, ch := range c14Channels {
				delete(c.subs, "c:"+ch)
			}
		case "mpsub":
			args = append([]string{"psubscribe"}, ordered(c14Patterns)...)
			for _, pt := range c14Patterns {
				c.subs["p:"+pt] = true
			}
		case "mpunsub":
			args = append([]string{"punsubscribe"}, ordered(c14Patterns)...)
			for _, pt := range c14Patterns {
				delete(c.subs, "p:"+pt)
			}
		case "sub":
			args = []string{"subscribe", c14Channels[e.B]}
			c.subs["c:"+c14Channels[e.B]] = true
		case "psub":
			args = []string{"psubscribe", c14Patterns[e.B]}
			c.subs["p:"+c14Patterns[e.B]] = true
		case "unsub":
			args = []string{"unsubscribe", c14Channels[e.B]}
			delete(c.subs, "c:"+c14Channels[e.B])
		case "punsub":
			args = []string{"punsubscribe", c14Patterns[e.B]}
			delete(c.subs, "p:"+c14Patterns[e.B])
		case "unsuball":
			args = []string{"unsubscribe"}
			for k := range c.subs {
				if strings.HasPrefix(k, "c:") {
					delete(c.subs, k)
				}
			}
		case "punsuball":
			args = []string{"punsubscribe"}
			for k := range c.subs {
				if strings.HasPrefix(k, "p:") {
					delete(c.subs, k)
				}
			}
		}
		if msg := s.send(c, args...); msg != "" {
			add("subscriber-command/"+e.K, "%s: %s", s.describe(e), msg)
		}
		c.srv.Bytes() // acknowledgements are not judged here
	case "disconnect":
		c := s.Conns[e.A]
		if !c.srv.DetachedConn().HangUp() {
			add("disconnect/runner-did-not-end", "the background runner of conn%d did not finish after the client hung up", e.A)
		}
		c.gone = true
		c.subs = map[string]bool{}
	case "publish":
		s.Seq++
		ch := c14Channels[e.B]
		payload := fmt.Sprintf("msg-%d", s.Seq)
		for _, c := range s.Conns {
			if c.srv != nil {
				c.srv.Bytes()
			}
		}
		pc := simnet.NewSrvConn("publisher")
		s.Cl.Members[e.A].DB.VerifServe(pc, redcon.Command{Args: [][]byte{[]byte("PUBLISH"), []byte(ch), []byte(payload)}})
		reply := strings.TrimSpace(string(pc.Bytes()))
		var reported int
		if _, err := fmt.Sscanf(reply, ":%d", &reported); err != nil {
			add("publish/reply", "PUBLISH answered %q", reply)
			return fs
		}
		total := 0
		s.LastCount, s.LastRecv = reported, make([]int, len(s.Conns))
		for ci, c := range s.Conns {
			// matching subscriptions of this connection according to the model
			k := 0
			if c.subs["c:"+ch] {
				k++
			}
			for _, p := range c14Patterns {
				if c.subs["p:"+p] && match.Match(ch, p) {
					k++
				}
			}
			d := 0
			if c.srv != nil && !c.gone {
				for _, f := range frames(c.srv.Bytes()) {
					if len(f) >= 3 && (f[0] == "message" || f[0] == "pmessage") {
						if f[len(f)-1] != payload {
							add("delivery/foreign-message", "conn%d received %v while %q was being published", ci, f, payload)
							continue
						}
						if f[0] == "message" && f[1] != ch || f[0] == "pmessage" && f[2] != ch {
							add("delivery/wrong-channel", "conn%d received %v for a message published on %q", ci, f, ch)
						}
						d++
					}
				}
			}
			total += d
			s.LastRecv[ci] = d
			switch {
			case k == 0 && d > 0:
				add("delivery/to-non-subscriber", "conn%d has no subscription matching %q (subscriptions %v) but received the message %d time(s)", ci, ch, subList(c), d)
			case k == 1 && d != 1:
				add(fmt.Sprintf("delivery/count-%d-for-one-subscription", d), "conn%d has exactly one subscription matching %q (%v) and received the message %d times", ci, ch, subList(c), d)
			case k > 1 && (d < 1 || d > k):
				add("delivery/count-out-of-range", "conn%d has %d subscriptions matching %q (%v) and received the message %d times", ci, k, ch, subList(c), d)
			}
		}
		if reported != total {
			add("publish/count-differs-from-deliveries", "PUBLISH %q via member%d returned %d, %d deliveries were made (subscriptions: %s)", ch, e.A, reported, total, s.allSubs())
		}
	}
	return fs
}

func subList(c *c14Conn) []string {
	var out []string
	for k := range c.subs {
		out = append(out, k)
	}
	sort.Strings(out)
	return out
}

func (s *c14Sys) allSubs() string {
	var b strings.Builder
	for i, c := range s.Conns {
		fmt.Fprintf(&b, "conn%d@member%d%v ", i, c.member, subList(c))
	}
	return b.String()
}

func (s *c14Sys) Canon() string {
	var b strings.Builder
	for i, c := range s.Conns {
		fmt.Fprintf(&b, "%d:%v:%v:%v;", i, c.srv != nil, c.gone, subList(c))
	}
	// the implementation's own subscription state (tree and per-connection sets), so that two
	// paths are merged only when the implementation cannot tell them apart either
	for _, m := range s.Cl.Members {
		b.WriteString(m.DB.VerifPubSub().VerifDump())
		b.WriteString("#")
	}
	return b.String()
}

func ask(m *simcluster.Member, args ...string) []string {
	c := simnet.NewSrvConn("introspection")
	cmd := redcon.Command{}
	for _, a := range args {
		cmd.Args = append(cmd.Args, []byte(a))
	}
	m.DB.VerifServe(c, cmd)
	b := c.Bytes()
	n, r := redcon.ReadNextRESP(b)
	if n == 0 {
		return []string{"?" + string(b)}
	}
	if r.Type == redcon.Integer || r.Type == redcon.Error {
		return []string{string(r.Data)}
	}
	var out []string
	r.ForEach(func(x redcon.RESP) bool { out = append(out, string(x.Data)); return true })
	return out
}

// Check: PUBSUB CHANNELS / NUMSUB / NUMPAT on every member against the model.
func (s *c14Sys) Check() []clustermc.Fail {
	var fs []clustermc.Fail
	add := func(k, f string, a ...interface{}) {
		fs = append(fs, clustermc.Fail{Key: k, What: fmt.Sprintf(f, a...)})
	}
	for mi, m := range s.Cl.Members {
		chans := map[string]int{} // channel -> number of connections subscribed to it on this member
		pats := map[string]bool{}
		for _, c := range s.Conns {
			if c.member != mi || c.gone {
				continue
			}
			for k := range c.subs {
				if strings.HasPrefix(k, "c:") {
					chans[k[2:]]++
				} else {
					pats[k[2:]] = true
				}
			}
		}
		var want []string
		for ch := range chans {
			want = append(want, ch)
		}
		sort.Strings(want)
		got := ask(m, "pubsub", "channels")
		sort.Strings(got)
		if strings.Join(got, ",") != strings.Join(want, ",") {
			add("introspection/channels", "PUBSUB CHANNELS on member%d returns %v, the distinct subscribed channels are %v (%s)", mi, got, want, s.allSubs())
		}
		for _, pat := range []string{"a*", "b"} {
			var wantP []string
			for ch := range chans {
				if match.Match(ch, pat) {
					wantP = append(wantP, ch)
				}
			}
			sort.Strings(wantP)
			gotP := ask(m, "pubsub", "channels", pat)
			sort.Strings(gotP)
			if strings.Join(gotP, ",") != strings.Join(wantP, ",") {
				add("introspection/channels-with-pattern", "PUBSUB CHANNELS %s on member%d returns %v, expected %v (%s)", pat, mi, gotP, wantP, s.allSubs())
			}
		}
		ns := ask(m, "pubsub", "numsub", "a", "b")
		if len(ns) != 4 || ns[0] != "a" || ns[2] != "b" || ns[1] != fmt.Sprint(chans["a"]) || ns[3] != fmt.Sprint(chans["b"]) {
			add("introspection/numsub", "PUBSUB NUMSUB a b on member%d returns %v, expected [a %d b %d] (%s)", mi, ns, chans["a"], chans["b"], s.allSubs())
		}
		np := ask(m, "pubsub", "numpat")
		if len(np) != 1 || np[0] != fmt.Sprint(len(pats)) {
			add("introspection/numpat", "PUBSUB NUMPAT on member%d returns %v, %d distinct patterns are subscribed (%s)", mi, np, len(pats), s.allSubs())
		}
	}
	return fs
}

// c14Traces: every event sequence of length <= 2 (in BFS order, capped), each followed by a PUBLISH
// on a through member0 and on b through the last member, run on the simulated stack with every
// observation recorded, for replay on the unmodified stack.
func c14Traces(max int) []confx.Trace {
	p := &c14Params{Name: "conformance", N: 2}
	var paths [][]clustermc.Ev
	s0 := c14New(p)
	first := s0.Events()
	multi := func(e clustermc.Ev) bool { return strings.HasPrefix(e.K, "m") } // not known to the replayer
	for _, e := range first {
		if !multi(e) {
			paths = append(paths, []clustermc.Ev{e})
		}
	}
	for _, e := range first {
		if multi(e) {
			continue
		}
		s := c14New(p)
		s.Apply(e)
		for _, e2 := range s.Events() {
			if multi(e2) {
				continue
			}
			paths = append(paths, []clustermc.Ev{e, e2})
		}
	}
	// spread the cap over the whole list (deterministic stride), shortest first
	if max > 0 && len(paths) > max {
		stride := (len(paths) + max - 1) / max
		var sel [][]clustermc.Ev
		for i := 0; i < len(paths); i += stride {
			sel = append(sel, paths[i])
		}
		paths = sel
	}
	tail := []clustermc.Ev{{K: "publish", A: 0, B: 0}, {K: "publish", A: p.N - 1, B: 1}}
	var out []confx.Trace
	for i, path := range paths {
		s := c14New(p)
		t := confx.Trace{ID: fmt.Sprintf("c14-%d", i), Members: p.N, R: 1, Entry: "pubsub"}
		ok := true
		for _, e := range append(append([]clustermc.Ev{}, path...), tail...) {
			if len(s.Apply(e)) > 0 {
				ok = false
				break
			}
			st := confx.PsStep{Op: e.K, Conn: e.A}
			switch e.K {
			case "sub", "unsub":
				st.Name = c14Channels[e.B]
			case "psub", "punsub":
				st.Name = c14Patterns[e.B]
			case "publish":
				st.Conn, st.Member, st.Name = 0, e.A, c14Channels[e.B]
				st.Count, st.Recv = s.LastCount, append([]int{}, s.LastRecv...)
			}
			for _, m := range s.Cl.Members {
				ch := ask(m, "pubsub", "channels")
				sort.Strings(ch)
				if ch == nil {
					ch = []string{}
				}
				st.Chans = append(st.Chans, ch)
				ns := ask(m, "pubsub", "numsub", "a", "b")
				var a, b int64
				if len(ns) == 4 {
					fmt.Sscan(ns[1], &a)
					fmt.Sscan(ns[3], &b)
				}
				st.NumSub = append(st.NumSub, []int64{a, b})
				var np int64
				if x := ask(m, "pubsub", "numpat"); len(x) == 1 {
					fmt.Sscan(x[0], &np)
				}
				st.NumPat = append(st.NumPat, np)
			}
			t.Ps = append(t.Ps, st)
		}
		if ok {
			out = append(out, t)
		}
	}
	return out
}

func c14Specs(tier string) []*clustermc.Spec {
	depth := 5
	ns := []int{2}
	if tier == "thorough" {
		depth = 6
		ns = []int{1, 2}
	}
	var out []*clustermc.Spec
	for _, n := range ns {
		p := &c14Params{Name: fmt.Sprintf("N=%d connections=3", n), N: n, Depth: depth}
		proto := &c14Sys{P: p}
		out = append(out, &clustermc.Spec{
			Name: p.Name, Depth: depth,
			New:      func() interface{} { return c14New(p) },
			Events:   func(s interface{}) []clustermc.Ev { return s.(*c14Sys).Events() },
			Apply:    func(s interface{}, e clustermc.Ev) []clustermc.Fail { return s.(*c14Sys).Apply(e) },
			Canon:    func(s interface{}) string { return s.(*c14Sys).Canon() },
			Check:    func(s interface{}) []clustermc.Fail { return s.(*c14Sys).Check() },
			Describe: proto.describe,
			NonTrivial: func(s interface{}) bool {
				n := 0
				for _, c := range s.(*c14Sys).Conns {
					if len(c.subs) > 0 {
						n++
					}
				}
				return n >= 2
			},
		})
	}
	return out
}

func init() {
	clustermc.Specs["C14"] = c14Specs
	core.Register(&core.Check{ID: "C14", Level: "model_checking", Run: func(c *core.Ctx) {
		c.Cov["rule"] = "BFS over sequences of {SUBSCRIBE, PSUBSCRIBE, UNSUBSCRIBE (one / all), PUNSUBSCRIBE (one / all), disconnect} on three connections (two on one member, one on another), PUBLISH of a uniquely tagged message on channel a or b through either member; channels {a,b}, patterns {a*, b} (the second one has the text of a channel name); every PUBLISH: per connection the number of frames received against its matching subscriptions (none: 0, one: exactly 1, k>1: 1..k), nothing else received, PUBLISH's reply equals the deliveries made; in every state PUBSUB CHANNELS [pattern], NUMSUB and NUMPAT on every member against the model; non-trivial = distinct states with at least two subscribed connections"
		clustermc.RunFamily(c, "C14")
		bound := 2
		if c.Tier == "thorough" {
			bound = 3
		}
		c.Cov["concurrent_part"] = "stateless exploration (preemption bound 2 quick / 3 thorough) of two publisher threads (A1,A2 through member0; B1 through member1) and a third thread that unsubscribes / subscribes / psubscribes a connection (and then publishes C1) over 2-3 subscriber layouts: exact delivery counts for connections whose subscriptions are stable, 0..1 for the one being changed, nothing after an acknowledged UNSUBSCRIBE, A1 before A2 everywhere, every PUBLISH reply equals the frames written for it"
		shards, maxExecs := 1, 0
		if c.Tier == "thorough" {
			// heavy programs are split over 4 workers; a (program, shard) exploration that reaches
			// 150000 executions stops there and the check reports exhaustive:false
			shards, maxExecs = 4, 150000
		}
		schedmc.RunFamily(c, "C14", bound, shards, maxExecs)
		max := 60
		if c.Tier == "thorough" {
			max = 0
		}
		confx.Replay(c, c14Traces(max))
		c.Assumef("subscriber connections are the server side of redcon's detached connection (a stand-in that feeds the real background runner one command at a time and waits for it to go idle); a connection with several matching subscriptions may legitimately receive between one copy and one copy per subscription")
	}})
}
