package checks

import (
	"bytes"
	"encoding/json"
	"fmt"
	"runtime"
	"sort"
	"strings"
	"time"

	"github.com/olric-data/olric/internal/verif/core"
	"github.com/olric-data/olric/internal/verif/sched"
	"github.com/olric-data/olric/internal/verif/simcluster"
)

// C15: one operation, one pre-state, every client path: result class and stored entry must agree.

type c15Case struct {
	Op    string `json:"op"`  // put|expire|getput|incr|decr|incrf|lock|lockt|unlock|lease|del
	Opt   string `json:"opt"` // put option string
	Pre   string `json:"pre"` // absent|present|ttl|expired
	R     int    `json:"r"`
	Multi string `json:"multi,omitempty"` // multi-key delete placement: local|remote1|spread
	Rot   int    `json:"rot,omitempty"`
}

func (c c15Case) String() string {
	if c.Op == "mdel" {
		return fmt.Sprintf("Delete(3 keys placement=%s rot=%d) R=%d", c.Multi, c.Rot, c.R)
	}
	o := c.Op
	if c.Opt != "" {
		o += "[" + c.Opt + "]"
	}
	return fmt.Sprintf("%s pre=%s R=%d", o, c.Pre, c.R)
}

// RNx: the raw path with every duration spelled in the other unit (EX <-> PX, EXAT <-> PXAT,
// DM.EXPIRE <-> DM.PEXPIRE, DM.LOCKLEASE <-> DM.PLOCKLEASE)
var c15Paths = []string{"EO", "EN", "CC", "RO", "RN", "PL", "RNx"}

type c15Obs struct {
	Path   string
	Result string
	Post   string
	Skip   bool
}

func c15Cases(tier string) []c15Case {
	var cs []c15Case
	rs := []int{1, 2}
	pres := []string{"absent", "present", "ttl", "expired"}
	for _, r := range rs {
		for _, pre := range pres {
			for _, cond := range []string{"", "NX", "XX"} {
				for _, exp := range []string{"", "EX", "PX", "EXAT", "PXAT"} {
					opt := strings.Trim(cond+"+"+exp, "+")
					cs = append(cs, c15Case{Op: "put", Opt: opt, Pre: pre, R: r})
				}
			}
			for _, op := range []string{"expire", "getput", "incr", "decr", "incrf", "lock", "lockt", "unlock", "lease", "del", "get"} {
				cs = append(cs, c15Case{Op: op, Pre: pre, R: r})
			}
		}
		for _, m := range []string{"local", "remote1", "spread"} {
			for rot := 0; rot < 4; rot++ {
				cs = append(cs, c15Case{Op: "mdel", Multi: m, Rot: rot, R: r})
			}
		}
	}
	return cs
}

func relTTL(ttl int64) string {
	if ttl == 0 {
		return "none"
	}
	return fmt.Sprintf("%+dms", ttl-sched.PeekNS()/1e6)
}

// c15Run executes the case through one path on a fresh cluster and returns the observation.
func c15Run(cs c15Case, path string) c15Obs {
	sched.ResetClock()
	runtime.VerifSetMapIter(uint64(cs.Rot))
	defer runtime.VerifSetMapIter(0)
	cl := simcluster.New(simcluster.Opts{N: 3, Replicas: cs.R, WriteQ: 1, ReadQ: 1, Partitions: 7})
	obs := c15Obs{Path: path}
	key := "k"
	setup, _ := cl.Entry("EO", "d", key)
	if cs.Op == "mdel" {
		return c15MultiDel(cl, cs, path)
	}
	if path == "PL" && (cs.Op == "lock" || cs.Op == "lockt" || cs.Op == "unlock" || cs.Op == "lease") {
		obs.Skip = true
		return obs
	}
	numeric := cs.Op == "incr" || cs.Op == "decr" || cs.Op == "incrf"
	val := []byte("old-value")
	if numeric {
		val = []byte("41")
	}
	kv, err := cl.Entry(path, "d", key)
	if err != nil {
		obs.Result = "entry-error:" + err.Error()
		return obs
	}
	var tok []byte
	lockish := cs.Op == "unlock" || cs.Op == "lease"
	switch cs.Pre {
	case "present":
		if lockish {
			r := kv.Lock(key, 0, 0)
			tok = r.Token
		} else {
			setup.Put(key, val, simcluster.PutOpt{})
		}
	case "ttl":
		if lockish {
			r := kv.Lock(key, 5200*time.Millisecond, 0)
			tok = r.Token
		} else {
			setup.Put(key, val, simcluster.PutOpt{PX: 5200 * time.Millisecond})
		}
		simcluster.Tick(time.Second)
	case "expired":
		if lockish {
			r := kv.Lock(key, 1100*time.Millisecond, 0)
			tok = r.Token
		} else {
			setup.Put(key, val, simcluster.PutOpt{PX: 1100 * time.Millisecond})
		}
		simcluster.Tick(2 * time.Second)
	}
	if lockish && tok == nil {
		tok = []byte("0123456789abcdef")
	}
	now := time.Duration(sched.PeekNS())
	var r simcluster.Res
	switch cs.Op {
	case "put":
		var o simcluster.PutOpt
		for _, f := range strings.Split(cs.Opt, "+") {
			switch f {
			case "NX":
				o.NX = true
			case "XX":
				o.XX = true
			case "EX":
				o.EX = 3300 * time.Millisecond
			case "PX":
				o.PX = 2500 * time.Millisecond
			case "EXAT":
				o.EXAT = (now + 4300*time.Millisecond).Truncate(time.Millisecond)
			case "PXAT":
				o.PXAT = (now + 3500*time.Millisecond).Truncate(time.Millisecond)
			}
		}
		r = kv.Put(key, []byte("new-value"), o)
	case "expire":
		r = kv.Expire(key, 2500*time.Millisecond)
	case "getput":
		r = kv.GetPut(key, []byte("new-value"))
	case "incr":
		r = kv.Incr(key, 2)
	case "decr":
		r = kv.Decr(key, 2)
	case "incrf":
		r = kv.IncrByFloat(key, 0.5)
	case "lock":
		r = kv.Lock(key, 0, 0)
	case "lockt":
		r = kv.Lock(key, 2200*time.Millisecond, 0)
	case "unlock":
		r = kv.Unlock(key, tok)
	case "lease":
		r = kv.Lease(key, tok, 2500*time.Millisecond)
	case "del":
		r = kv.Del(key)
	case "get":
		r = kv.Get(key)
	}
	res := "ok"
	if r.Err != "" {
		res = "err:" + strings.SplitN(r.Err, ":", 2)[0]
	} else {
		switch cs.Op {
		case "getput":
			if r.Nil {
				res = "ok nil"
			} else {
				res = fmt.Sprintf("ok old=%q", r.Val)
			}
		case "get":
			res = fmt.Sprintf("ok val=%q ttl=%s", r.Val, relTTL(r.TTL))
		case "incr", "decr", "del":
			res = fmt.Sprintf("ok n=%d", r.N)
		case "incrf":
			res = fmt.Sprintf("ok f=%g", r.F)
		case "lock", "lockt":
			res = fmt.Sprintf("ok token-len=%d", len(r.Token))
		}
	}
	obs.Result = res
	obs.Post = c15Post(cl, key, r.Token, tok)
	return obs
}

func c15Post(cl *simcluster.Cluster, key string, toks ...[]byte) string {
	var parts []string
	view := cl.Live()[0]
	owner := cl.Owner(view, "d", key)
	backups := map[string]bool{}
	for _, b := range cl.Backups(view, "d", key) {
		backups[b.Name] = true
	}
	for _, c := range cl.Copies("d", key) {
		role := "stray-" + c.Kind
		if c.Kind == "primary" && c.Member == owner.Name {
			role = "primary"
		} else if c.Kind == "backup" && backups[c.Member] {
			role = "backup"
		}
		v := string(c.Value)
		for _, t := range toks {
			if t != nil && bytes.Equal(t, c.Value) {
				v = "<token>"
			}
		}
		if len(c.Value) == 16 && v != "<token>" && cl != nil && !isPrintable(c.Value) {
			v = "<token>"
		}
		parts = append(parts, fmt.Sprintf("%s{%q ttl=%s}", role, v, relTTL(c.TTL)))
	}
	sort.Strings(parts)
	if len(parts) == 0 {
		return "absent"
	}
	return strings.Join(parts, " ")
}

func isPrintable(b []byte) bool {
	for _, c := range b {
		if c < 32 || c > 126 {
			return false
		}
	}
	return true
}

func c15MultiDel(cl *simcluster.Cluster, cs c15Case, path string) c15Obs {
	obs := c15Obs{Path: path}
	view := cl.Live()[0]
	// the entry member is fixed by the first key
	k0 := "m0"
	entryKV, err := cl.Entry(path, "d", k0)
	if err != nil {
		obs.Result = "entry-error"
		return obs
	}
	owner0 := cl.Owner(view, "d", k0)
	entryMember := owner0
	if path == "EN" || path == "RN" || path == "RNx" {
		for _, m := range cl.Live() {
			if m != owner0 {
				entryMember = m
				break
			}
		}
	}
	keys := []string{}
	used := map[string]bool{}
	pickKey := func(pred func(o *simcluster.Member) bool) string {
		k := cl.FindKey("m", func(k string) bool { return !used[k] && pred(cl.Owner(view, "d", k)) })
		used[k] = true
		return k
	}
	var others []*simcluster.Member
	for _, m := range cl.Live() {
		if m != entryMember {
			others = append(others, m)
		}
	}
	switch cs.Multi {
	case "local":
		for i := 0; i < 3; i++ {
			keys = append(keys, pickKey(func(o *simcluster.Member) bool { return o == entryMember }))
		}
	case "remote1":
		for i := 0; i < 3; i++ {
			keys = append(keys, pickKey(func(o *simcluster.Member) bool { return o == others[0] }))
		}
	case "spread":
		keys = append(keys, pickKey(func(o *simcluster.Member) bool { return o == others[0] }))
		keys = append(keys, pickKey(func(o *simcluster.Member) bool { return o == entryMember }))
		keys = append(keys, pickKey(func(o *simcluster.Member) bool { return o == others[1] }))
	}
	setup, _ := cl.Entry("EO", "d", k0)
	for _, k := range keys {
		setup.Put(k, []byte("v"), simcluster.PutOpt{})
	}
	r := entryKV.Del(keys...)
	if r.Err != "" {
		obs.Result = "err:" + strings.SplitN(r.Err, ":", 2)[0]
	} else {
		obs.Result = fmt.Sprintf("ok n=%d", r.N)
	}
	var left []string
	for i, k := range keys {
		if len(cl.Copies("d", k)) > 0 {
			left = append(left, fmt.Sprintf("key#%d", i))
		}
	}
	if len(left) == 0 {
		obs.Post = "absent"
	} else {
		obs.Post = "left: " + strings.Join(left, ",")
	}
	return obs
}

type c15JobParams struct {
	Cases []c15Case `json:"cases"`
}

type c15JobResult struct {
	Obs [][]c15Obs // per case, per path
}

func init() {
	core.RegisterJob("c15", func(raw json.RawMessage) (interface{}, error) {
		var p c15JobParams
		if err := json.Unmarshal(raw, &p); err != nil {
			return nil, err
		}
		var res c15JobResult
		for _, cs := range p.Cases {
			var row []c15Obs
			for _, path := range c15Paths {
				row = append(row, c15Run(cs, path))
			}
			res.Obs = append(res.Obs, row)
		}
		return res, nil
	})
	core.Register(&core.Check{ID: "C15", Level: "model_checking", Run: func(c *core.Ctx) {
		cases := c15Cases(c.Tier)
		var params []interface{}
		chunk := 8
		for i := 0; i < len(cases); i += chunk {
			j := i + chunk
			if j > len(cases) {
				j = len(cases)
			}
			params = append(params, c15JobParams{cases[i:j]})
		}
		evals, distinct := 0, 0
		outcomes := map[string]bool{}
		core.RunJobs("c15", params, 10*time.Minute, func(idx int, res json.RawMessage, crash string) {
			jp := params[idx].(c15JobParams)
			if crash != "" {
				c.Violate("C15/worker-crash", "worker failed: "+crash, jp)
				return
			}
			var r c15JobResult
			json.Unmarshal(res, &r)
			for ci, row := range r.Obs {
				cs := jp.Cases[ci]
				// majority observation is the reference; deviating paths are reported
				count := map[string]int{}
				for _, o := range row {
					if !o.Skip {
						evals++
						count[o.Result+" | "+o.Post]++
					}
				}
				best, bn := "", 0
				var keys []string
				for k := range count {
					keys = append(keys, k)
				}
				sort.Strings(keys)
				for _, k := range keys {
					if count[k] > bn {
						best, bn = k, count[k]
					}
				}
				outcomes[best] = true
				if len(count) > 1 {
					distinct++
				}
				if cs.Op == "mdel" {
					for _, o := range row {
						if !strings.HasSuffix(o.Post, "absent") && !o.Skip {
							c.Violate(fmt.Sprintf("C15/multi-delete-leaves-keys/placement=%s/path=%s", cs.Multi, pathClass(o.Path)),
								fmt.Sprintf("%s via %s: result %s, %s", cs, o.Path, o.Result, o.Post), map[string]interface{}{"case": cs, "path": o.Path})
						}
					}
				}
				for _, o := range row {
					if o.Skip {
						continue
					}
					if o.Result+" | "+o.Post != best {
						what := "result"
						if strings.HasPrefix(best, o.Result+" | ") {
							what = "stored-entry"
						}
						opn := cs.Op
						if cs.Opt != "" {
							opn += "[" + cs.Opt + "]"
						}
						if cs.Op == "mdel" {
							opn = "mdel/" + cs.Multi
						}
						c.Violate(fmt.Sprintf("C15/%s-differs/op=%s/pre=%s/path=%s", what, opn, cs.Pre, pathClass(o.Path)),
							fmt.Sprintf("%s: via %s => %s | %s ; the other paths => %s", cs, o.Path, o.Result, o.Post, best),
							map[string]interface{}{"case": cs, "path": o.Path})
					}
				}
				if ci == 0 {
					c.Sample(map[string]interface{}{"case": cs.String(), "observation": best})
				}
			}
		})
		c.Cov["states"] = len(cases)
		c.Cov["transitions"] = evals
		c.Cov["evaluations"] = evals
		c.Cov["distinct_nontrivial"] = len(outcomes)
		c.Cov["cases_with_path_disagreement"] = distinct
		c.Cov["exhaustive"] = true
		c.Cov["traces_validated_against_impl"] = 0
		c.Cov["rule"] = "every (operation, option combination, pre-state, replica count) case is executed once through each of the six client paths (EO, EN, CC, RO, RN, PL) on a fresh real 3-member cluster under the virtual clock; result class, returned value and the decoded stored copies (value, relative expiry, role) must be identical on all paths; multi-key Delete additionally over key placements x map-iteration rotations; non-trivial = distinct agreed observations"
		c.Assumef("lock operations are not offered by the pipeline path; a lock token is compared by length only")
	}})
}

func pathClass(p string) string { return p }
