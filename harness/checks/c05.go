package checks

import (
	"encoding/json"
	"fmt"
	"github.com/olric-data/olric/internal/cluster/partitions"
	"strings"
	"time"

	"github.com/olric-data/olric/internal/verif/core"
	"github.com/olric-data/olric/internal/verif/sched"
	"github.com/olric-data/olric/internal/verif/simcluster"
	"github.com/olric-data/olric/internal/verif/simnet"
	"github.com/tidwall/redcon"
)

// C05: quorums. Grid over (R, W, RQ) x unreachable backup subsets for the Put and for the Get,
// x entry point; member-count quorum over (MCQ, shrunken views) x every registered command.

type c05Case struct {
	Kind   string `json:"kind"` // rw | mcq
	R      int    `json:"r"`
	W      int    `json:"w"`
	RQ     int    `json:"rq"`
	PutCut int    `json:"put_cut"` // bitmask over backup owners unreachable during the Put
	GetCut int    `json:"get_cut"`
	Entry  string `json:"entry"`
	Mode   string `json:"mode"` // cut (refuse) | dead (killed, undetected)
	MCQ    int    `json:"mcq"`
	Gone   int    `json:"gone"` // number of members crashed+detected (mcq cases)
	// OwnerEmpty: after the Put the partition owner's own copy is taken away (a primary owner that
	// has not received the key: fresh after a take-over); the key lives on the backups only
	OwnerEmpty bool `json:"owner_empty,omitempty"`
}

func (c c05Case) String() string {
	if c.Kind == "mcq" {
		return fmt.Sprintf("MemberCountQuorum=%d members-visible=%d", c.MCQ, 3-c.Gone)
	}
	oe := ""
	if c.OwnerEmpty {
		oe = " owner-copy-removed-before-get"
	}
	return fmt.Sprintf("R=%d W=%d RQ=%d entry=%s unreachable-backups(put)=%b unreachable-backups(get)=%b mode=%s%s", c.R, c.W, c.RQ, c.Entry, c.PutCut, c.GetCut, c.Mode, oe)
}

func c05Cases(tier string) []c05Case {
	var cs []c05Case
	modes := []string{"cut"}
	if tier == "thorough" {
		modes = append(modes, "dead")
	}
	for r := 1; r <= 3; r++ {
		for w := 1; w <= r; w++ {
			for rq := 1; rq <= r; rq++ {
				for pc := 0; pc < 1<<uint(r-1); pc++ {
					for gc := 0; gc < 1<<uint(r-1); gc++ {
						for _, e := range []string{"EO", "EN", "CC"} {
							for _, m := range modes {
								if m == "dead" && pc != 0 && gc != 0 && pc != gc {
									continue // a killed member stays dead: only nested subsets make sense
								}
								cs = append(cs, c05Case{Kind: "rw", R: r, W: w, RQ: rq, PutCut: pc, GetCut: gc, Entry: e, Mode: m})
								if r >= 2 && pc == 0 && m == "cut" {
									cs = append(cs, c05Case{Kind: "rw", R: r, W: w, RQ: rq, PutCut: pc, GetCut: gc, Entry: e, Mode: m, OwnerEmpty: true})
								}
							}
						}
					}
				}
			}
		}
	}
	for mcq := 1; mcq <= 3; mcq++ {
		for gone := 0; gone <= 2; gone++ {
			cs = append(cs, c05Case{Kind: "mcq", MCQ: mcq, Gone: gone})
		}
	}
	return cs
}

type c05Fail struct {
	Key  string
	What string
}

func c05Run(cs c05Case) []c05Fail {
	sched.ResetClock()
	if cs.Kind == "mcq" {
		return c05MCQ(cs)
	}
	var fs []c05Fail
	add := func(k, f string, a ...interface{}) { fs = append(fs, c05Fail{k, fmt.Sprintf(f, a...)}) }
	cl := simcluster.New(simcluster.Opts{N: 3, Replicas: cs.R, WriteQ: cs.W, ReadQ: cs.RQ, Partitions: 7})
	key := "k"
	view := cl.Live()[0]
	owner := cl.Owner(view, "d", key)
	backups := cl.Backups(view, "d", key)
	if len(backups) != cs.R-1 {
		add("setup", "expected %d backup owners, routing table lists %d", cs.R-1, len(backups))
		return fs
	}
	kv, err := cl.Entry(cs.Entry, "d", key)
	if err != nil {
		add("setup", "entry: %v", err)
		return fs
	}
	if cs.Mode == "dead" && cs.Entry == "EN" {
		// the entry member must not be one of the members that get killed (a killed member neither
		// sends requests nor receives replies): take a non-owner outside the killed set, or skip
		// the case when every non-owner is killed
		killed := map[string]bool{}
		for i, b := range backups {
			if (cs.PutCut|cs.GetCut)&(1<<uint(i)) != 0 {
				killed[b.Name] = true
			}
		}
		var pick *simcluster.Member
		for _, m := range cl.Live() {
			if m != owner && !killed[m.Name] {
				pick = m
				break
			}
		}
		if pick == nil {
			return fs
		}
		dm, err := pick.Emb.NewDMap("d")
		if err != nil {
			add("setup", "entry: %v", err)
			return fs
		}
		kv = simcluster.WrapDMap("EN@"+pick.Name, dm)
	}
	// warm the connections the entry point needs so that a cut only affects owner->backup traffic
	kv.Get("warmup")
	setCut := func(mask int, on bool) int {
		n := 0
		for i, b := range backups {
			if mask&(1<<uint(i)) != 0 {
				n++
				if cs.Mode == "cut" {
					simnet.N.Cut(owner.Name, b.Name, on)
				} else if on {
					simnet.N.Kill(b.Name)
				}
			}
		}
		return n
	}
	count := func(val string, reachableMask int) (stored, reachable int) {
		for _, c := range cl.Copies("d", key) {
			if string(c.Value) != val {
				continue
			}
			if c.Kind == "primary" && c.Member == owner.Name {
				stored++
				reachable++
			}
			for i, b := range backups {
				if c.Kind == "backup" && c.Member == b.Name {
					stored++
					if reachableMask&(1<<uint(i)) == 0 {
						reachable++
					}
				}
			}
		}
		return
	}
	// --- Put ---
	down := setCut(cs.PutCut, true)
	r := kv.Put(key, []byte("v1"), simcluster.PutOpt{})
	setCutOff := func(mask int) {
		if cs.Mode == "cut" {
			setCut(mask, false)
		}
	}
	setCutOff(cs.PutCut)
	stored, _ := count("v1", 0)
	canReach := cs.R - down
	sig := fmt.Sprintf("R=%d/W=%d/entry=%s/mode=%s", cs.R, cs.W, cs.Entry, cs.Mode)
	switch {
	case r.Err == "" && stored < cs.W:
		add("put-acknowledged-below-write-quorum/"+sig, "Put acknowledged although only %d copies were stored (WriteQuorum=%d)", stored, cs.W)
	case r.Err != "" && r.Err != "writequorum" && canReach >= cs.W:
		add("put-failed-by-unreachable-backup/"+sig, "Put failed with %q although %d copies were reachable (WriteQuorum=%d, %d backups unreachable)", r.Err, canReach, cs.W, down)
	case r.Err == "writequorum" && canReach >= cs.W:
		add("put-write-quorum-error-although-reachable/"+sig, "Put failed with the write-quorum error although %d copies were reachable (WriteQuorum=%d)", canReach, cs.W)
	case r.Err != "" && r.Err != "writequorum" && canReach < cs.W:
		add("put-wrong-error/"+sig, "Put failed with %q, expected the write-quorum error (%d reachable copies, WriteQuorum=%d)", r.Err, canReach, cs.W)
	case r.Err == "" && canReach < cs.W:
		add("put-acknowledged-below-write-quorum/"+sig, "Put acknowledged with only %d reachable copies (WriteQuorum=%d)", canReach, cs.W)
	}
	// --- Get ---
	if cs.OwnerEmpty {
		owner.DB.VerifDMap().VerifRemove(partitions.PRIMARY, "d", partitions.HKey("d", key))
	}
	setCut(cs.GetCut, true)
	mask := cs.GetCut
	if cs.Mode == "dead" {
		mask |= cs.PutCut
	}
	storedNow, reach := count("v1", mask)
	g := kv.Get(key)
	setCutOff(cs.GetCut)
	gsig := fmt.Sprintf("R=%d/RQ=%d/entry=%s/mode=%s", cs.R, cs.RQ, cs.Entry, cs.Mode)
	if cs.OwnerEmpty {
		gsig += "/owner-empty"
	}
	switch {
	case g.Err == "" && reach < cs.RQ:
		add("get-value-below-read-quorum/"+gsig, "Get returned %q although only %d copies were obtainable (ReadQuorum=%d)", g.Val, reach, cs.RQ)
	case r.Err == "" && storedNow > 0 && reach == 0 && g.Err == "notfound":
		// one situation, whatever the configuration: nothing at all could be obtained (the owner
		// holds no copy, every holder is unreachable) and the member answers not-found instead of
		// the read-quorum error - see DESIGN 7.2 (known finding)
		add("get-notfound-with-no-obtainable-copy", "key exists on %d copies, none obtainable (the owner holds no copy, every holder is unreachable), ReadQuorum=%d: Get answers not-found, the statement asks for the read-quorum error", storedNow, cs.RQ)
	case r.Err == "" && storedNow > 0 && reach < cs.RQ && g.Err != "readquorum":
		add("get-wrong-error-below-read-quorum/"+gsig, "key exists on %d copies, %d obtainable, ReadQuorum=%d: Get returned %q err=%q, expected the read-quorum error", storedNow, reach, cs.RQ, g.Val, g.Err)
	case reach >= cs.RQ && (storedNow == cs.R || (cs.OwnerEmpty && storedNow == cs.R-1)) && g.Err != "":
		add("get-failed-with-quorum-met/"+gsig, "all %d copies exist and %d are obtainable (ReadQuorum=%d) but Get failed with %q", storedNow, reach, cs.RQ, g.Err)
	}
	return fs
}

func c05MCQ(cs c05Case) []c05Fail {
	var fs []c05Fail
	add := func(k, f string, a ...interface{}) { fs = append(fs, c05Fail{k, fmt.Sprintf(f, a...)}) }
	cl := simcluster.New(simcluster.Opts{N: 3, Replicas: 1, Partitions: 7, MemberQ: cs.MCQ})
	x := cl.Members[0]
	// some data first (cluster is healthy: 3 >= MCQ)
	dm, err := x.Emb.NewDMap("d")
	if err != nil {
		add("setup", "NewDMap on a healthy cluster: %v", err)
		return fs
	}
	simcluster.WrapDMap("", dm).Put("k", []byte("v"), simcluster.PutOpt{})
	// established connections: one per command, opened while the cluster is healthy, each has already
	// served a read and a write (the pooled connection of a client or of another member)
	established := map[string]*simnet.SrvConn{}
	for _, name := range x.DB.VerifServer().VerifCommands() {
		conn := simnet.NewSrvConn("raw:mcq-established")
		for _, warm := range [][]string{{"dm.get", "d", "k"}, {"dm.put", "d", "k", "v"}} {
			var args [][]byte
			for _, a := range warm {
				args = append(args, []byte(a))
			}
			x.DB.VerifServe(conn, redcon.Command{Args: args})
			if r := string(conn.Bytes()); strings.HasPrefix(r, "-") {
				add("setup", "healthy cluster: %v answered %q", warm, r)
			}
		}
		established[name] = conn
	}
	for i := 0; i < cs.Gone; i++ {
		v := cl.Members[2-i]
		cl.Crash(v)
		cl.Detect(x, v)
	}
	for cl.Deliver(x) {
	}
	visible := 3 - cs.Gone
	below := visible < cs.MCQ
	before := dumpMember(x)
	for _, name := range x.DB.VerifServer().VerifCommands() {
		if name == "internal.node.updaterouting" {
			continue // the channel through which a member becomes operable: exempt by design
		}
		args := [][]byte{}
		for _, f := range strings.Fields(name) {
			args = append(args, []byte(f))
		}
		args = append(args, []byte("d"), []byte("k"), []byte("1"))
		for _, how := range []string{"", "/established-connection"} {
			conn := simnet.NewSrvConn("raw:mcq")
			if how != "" {
				conn = established[name]
			}
			func() {
				defer func() {
					if p := recover(); p != nil {
						add("mcq/panic/cmd="+name+how, "command %s panicked: %v", name, p)
					}
				}()
				x.DB.VerifServe(conn, redcon.Command{Args: args})
			}()
			reply := string(conn.Bytes())
			isQuorumErr := strings.Contains(reply, "quorum")
			if below && !isQuorumErr {
				add("mcq/command-served-below-quorum/cmd="+name+how, "member sees %d members (MemberCountQuorum=%d) but %s answered %q", visible, cs.MCQ, name, strings.TrimSpace(reply))
			}
			if !below && isQuorumErr {
				add("mcq/quorum-error-with-quorum-met/cmd="+name+how, "member sees %d members (MemberCountQuorum=%d) but %s answered %q", visible, cs.MCQ, name, strings.TrimSpace(reply))
			}
		}
	}
	if below {
		if after := dumpMember(x); after != before {
			add("mcq/state-changed-below-quorum", "stored state changed while below the member-count quorum: before %s after %s", before, after)
		}
		// every attempt to open a DMap: one that was never opened on this member and one that was
		// opened (and written) while the quorum was met
		for _, name := range []string{"other", "d"} {
			if _, err := x.Emb.NewDMap(name); simcluster.ErrClass(err) != "clusterquorum" {
				add("mcq/newdmap-below-quorum/name="+map[string]string{"other": "never-opened", "d": "opened-before"}[name], "NewDMap(%q) below the quorum returned %v, expected the cluster-quorum error", name, err)
			}
		}
	} else {
		for _, name := range []string{"other", "d"} {
			if _, err := x.Emb.NewDMap(name); err != nil {
				add("mcq/newdmap-with-quorum", "NewDMap(%q) with the quorum met failed: %v", name, err)
			}
		}
	}
	return fs
}

func dumpMember(m *simcluster.Member) string {
	var b strings.Builder
	for _, f := range m.DB.VerifDMap().VerifFragments() {
		fmt.Fprintf(&b, "%s/%d/%s:", f.Kind, f.PartID, f.Name)
		for _, e := range f.Entries {
			fmt.Fprintf(&b, "%s=%q/%d,", e.Key, e.Value, e.TTL)
		}
	}
	return b.String()
}

type c05Job struct {
	Cases []c05Case `json:"cases"`
}
type c05Res struct {
	Fails [][]c05Fail
}

func init() {
	core.RegisterJob("c05", func(raw json.RawMessage) (interface{}, error) {
		var p c05Job
		if err := json.Unmarshal(raw, &p); err != nil {
			return nil, err
		}
		var r c05Res
		for _, cs := range p.Cases {
			r.Fails = append(r.Fails, c05Run(cs))
		}
		return r, nil
	})
	core.Register(&core.Check{ID: "C05", Level: "fault_enumeration", Run: func(c *core.Ctx) {
		cases := c05Cases(c.Tier)
		var params []interface{}
		for i := 0; i < len(cases); i += 16 {
			j := i + 16
			if j > len(cases) {
				j = len(cases)
			}
			params = append(params, c05Job{cases[i:j]})
		}
		nontriv := 0
		core.RunJobs("c05", params, 10*time.Minute, func(idx int, res json.RawMessage, crash string) {
			jp := params[idx].(c05Job)
			if crash != "" {
				c.Violate("C05/worker-crash", "worker failed: "+crash, jp)
				return
			}
			var r c05Res
			json.Unmarshal(res, &r)
			for i, fl := range r.Fails {
				cs := jp.Cases[i]
				if cs.PutCut != 0 || cs.GetCut != 0 || cs.Gone != 0 {
					nontriv++
				}
				for _, f := range fl {
					c.Violate("C05/"+f.Key, fmt.Sprintf("%s: %s", cs, f.What), cs)
				}
			}
		})
		for i := 0; i < len(cases); i += len(cases)/6 + 1 {
			c.Sample(cases[i].String())
		}
		c.Cov["evaluations"] = len(cases)
		c.Cov["distinct_nontrivial"] = nontriv
		c.Cov["exhaustive"] = true
		c.Cov["rule"] = "full grid over (ReplicaCount, WriteQuorum, ReadQuorum) with quorum <= replicas x every subset of backup owners unreachable during the Put x every subset unreachable during the Get x entry point (x refuse / killed-undetected in thorough), plus (MemberCountQuorum x shrunken views) x every registered command; each case on a fresh real 3-member cluster with white-box copy counts; non-trivial = cases with at least one injected fault"
		c.Assumef("an unreachable backup is a refused connection from the partition owner (or a killed, not yet detected member); internal.node.updaterouting is exempt from the member-count rule")
	}})
}
