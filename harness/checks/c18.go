package checks

import (
	"context"
	"encoding/json"
	"errors"
	"fmt"
	"strings"
	"time"

	olric "github.com/olric-data/olric"
	"github.com/olric-data/olric/internal/verif/core"
	"github.com/olric-data/olric/internal/verif/sched"
	"github.com/olric-data/olric/internal/verif/simcluster"
	"github.com/olric-data/olric/internal/verif/simnet"
)

// C18: a value handed to a caller is a private snapshot; a buffer passed to Put may be reused.
// Enumerated: how the value was obtained x client path x every sequence (<= bound) of follow-up
// events that could disturb the memory it may alias.

var c18Handles = []string{"Get.Byte", "Get.String", "Get.Scan(*[]byte)", "Get.Scan(*string)", "GetPut.Byte", "Iterator.Key", "EmbeddedIterator.Key"}
var c18Events = []string{"overwrite-same-size", "overwrite-larger", "delete", "churn", "compact", "mutate-handle", "join+balance", "reread-into-same-variable"}

type c18Case struct {
	Handle string   `json:"handle"`
	Path   string   `json:"path"`
	Seq    []string `json:"seq"`
	Table  int      `json:"table"`
	PutBuf bool     `json:"put_buf,omitempty"` // the "reuse the Put buffer" scenario instead
	Via    string   `json:"via,omitempty"`     // ... through which writing call the buffer was passed
	Tail   bool     `json:"tail,omitempty"`    // the entry under test is the last thing that fits into its (128-byte) table
	RR     bool     `json:"rr,omitempty"`      // the "read-repair of a returned value" scenario instead
	Async  bool     `json:"async,omitempty"`   // ... with asynchronous replication (R=2): the replication runs after the buffer was rewritten
	// Pre: what happened to the store between the Put and the read that hands the value out
	// ("fill": neighbours written until the entry's table is sealed and a new one is active;
	// "compact": compaction of every partition; "churn" as in the follow-up events)
	Pre []string `json:"pre,omitempty"`
}

func (c c18Case) String() string {
	if c.RR {
		return fmt.Sprintf("backup owner missed the write; value from %s via %s (read-repair on), bytes overwritten by the caller", c.Handle, c.Path)
	}
	if c.PutBuf {
		return fmt.Sprintf("caller overwrites its Put buffer after %s returned (async replication: %v), via %s, table %d", c.Via, c.Async, c.Path, c.Table)
	}
	if c.Tail {
		return fmt.Sprintf("entry at the very end of its table; value from %s via %s, then [%s], table %d", c.Handle, c.Path, strings.Join(c.Seq, " ; "), c.Table)
	}
	if len(c.Pre) > 0 {
		return fmt.Sprintf("Put, then [%s], then value from %s via %s, then [%s], table %d", strings.Join(c.Pre, " ; "), c.Handle, c.Path, strings.Join(c.Seq, " ; "), c.Table)
	}
	return fmt.Sprintf("value from %s via %s, then [%s], table %d", c.Handle, c.Path, strings.Join(c.Seq, " ; "), c.Table)
}

func c18Cases(tier string) []c18Case {
	maxLen := 2
	if tier == "thorough" {
		maxLen = 3
	}
	var seqs [][]string
	var rec func(cur []string)
	rec = func(cur []string) {
		if len(cur) > 0 {
			seqs = append(seqs, append([]string{}, cur...))
		}
		if len(cur) == maxLen {
			return
		}
		for _, e := range c18Events {
			if e == "join+balance" && contains(cur, e) {
				continue
			}
			rec(append(cur, e))
		}
	}
	rec(nil)
	var cs []c18Case
	for _, p := range []string{"EO", "EN", "CC"} {
		for _, h := range c18Handles {
			if h == "Iterator.Key" && p != "CC" {
				continue // the cluster client's iterator
			}
			if h == "EmbeddedIterator.Key" && p == "CC" {
				continue // the embedded client's iterator (scans locally owned partitions in process)
			}
			for _, s := range seqs {
				for _, t := range []int{128, 1 << 16} {
					if t != 128 && tier != "thorough" && len(s) > 1 {
						continue
					}
					cs = append(cs, c18Case{Handle: h, Path: p, Seq: s, Table: t})
					if t == 128 && (len(s) == 1 || tier == "thorough") {
						// the same with the entry sitting at the very end of its table
						cs = append(cs, c18Case{Handle: h, Path: p, Seq: s, Table: t, Tail: true})
					}
					// the same with the entry no longer in the active table when it is read
					if t == 128 && (len(s) == 1 || tier == "thorough") {
						for _, pre := range [][]string{{"fill"}, {"fill", "compact"}, {"churn"}} {
							cs = append(cs, c18Case{Handle: h, Path: p, Seq: s, Table: t, Pre: pre})
						}
					}
				}
			}
		}
		// a value returned by a Get that triggers read-repair (the backup owner missed the write)
		for _, h := range []string{"Get.Byte", "Get.Scan(*[]byte)"} {
			cs = append(cs, c18Case{Handle: h, Path: p, Table: 1 << 16, RR: true})
		}
		for _, t := range []int{128, 1 << 16} {
			// every public call that takes a value to store
			for _, via := range []string{"Put", "Put+EX", "Put+NX", "GetPut", "Pipeline.Put", "Pipeline.Put+EX", "Pipeline.GetPut"} {
				if strings.HasPrefix(via, "Pipeline.") && p != "CC" {
					// the embedded client's Pipeline() opens a cluster client of its own over real TCP,
					// which does not exist in the simulated network; the pipeline code is the same
					continue
				}
				cs = append(cs, c18Case{Path: p, Table: t, PutBuf: true, Via: via})
				if t != 128 {
					cs = append(cs, c18Case{Path: p, Table: t, PutBuf: true, Via: via, Async: true})
				}
			}
		}
	}
	return cs
}

func contains(a []string, x string) bool {
	for _, y := range a {
		if y == x {
			return true
		}
	}
	return false
}

func c18Run(cs c18Case) (string, string) {
	sched.ResetClock()
	opts := simcluster.Opts{N: 2, Replicas: 1, Partitions: 3, TableSize: cs.Table}
	if cs.Async {
		opts.Replicas, opts.Async = 2, true
	}
	if cs.RR {
		opts.Replicas, opts.ReadRepair, opts.HoldGo = 2, true, true
	}
	cl := simcluster.New(opts)
	ctx := context.Background()
	key := "snap"
	view := cl.Live()[0]
	owner := cl.Owner(view, "d", key)
	other := cl.Live()[0]
	if other == owner {
		other = cl.Live()[1]
	}
	var dm olric.DMap
	var err error
	switch cs.Path {
	case "EO":
		dm, err = owner.Emb.NewDMap("d")
	case "EN":
		dm, err = other.Emb.NewDMap("d")
	default:
		var cc *olric.ClusterClient
		cc, err = cl.ClusterClient(other)
		if err == nil {
			dm, err = cc.NewDMap("d")
		}
	}
	if err != nil {
		return "setup", err.Error()
	}
	ownerDM, _ := owner.Emb.NewDMap("d")
	readStored := func() (string, error) {
		r, err := ownerDM.Get(ctx, key)
		if err != nil {
			return "", err
		}
		b, err := r.Byte()
		return string(append([]byte{}, b...)), err
	}
	sig := fmt.Sprintf("handle=%s/path=%s", cs.Handle, cs.Path)
	if cs.RR {
		// the backup owner misses an overwrite (its link is cut, WriteQuorum 1), then is reachable again:
		// the Get finds its copy stale and repairs it - with the very entry it hands to the caller
		backup := cl.Backups(view, "d", key)[0]
		if err := ownerDM.Put(ctx, key, []byte("older-0000")); err != nil {
			return "setup", err.Error()
		}
		simnet.N.Cut(owner.Name, backup.Name, true)
		if err := ownerDM.Put(ctx, key, []byte("original-1")); err != nil {
			return "setup", err.Error()
		}
		simnet.N.Cut(owner.Name, backup.Name, false)
		r, err := dm.Get(ctx, key)
		if err != nil {
			return "setup", err.Error()
		}
		var b []byte
		if cs.Handle == "Get.Byte" {
			b, err = r.Byte()
		} else {
			err = r.Scan(&b)
		}
		if err != nil || string(b) != "original-1" {
			return "setup", fmt.Sprintf("Get returned %q (%v)", b, err)
		}
		copy(b, "XXXXXXXXXX")
		cl.DeliverAsync() // whatever the Get left to run in the background runs now
		copies := 0
		for _, m := range cl.Live() {
			for _, f := range m.DB.VerifDMap().VerifFragments() {
				if f.Name != "dmap.d" {
					continue
				}
				for _, e := range f.Entries {
					if e.Key != key {
						continue
					}
					copies++
					if !strings.Contains(string(e.Value), "original-1") {
						return "returned-value-aliased/read-repair/" + sig, fmt.Sprintf("the caller overwrote the bytes a Get had returned; the %s copy on %s (written by the read-repair of that Get) now holds %q", f.Kind, m.Name, e.Value)
					}
				}
			}
		}
		if copies != 2 {
			return "setup", fmt.Sprintf("%d stored copies after a Get with read-repair, 2 expected", copies)
		}
		if got, err := readStored(); err != nil || got != "original-1" {
			return "returned-value-aliased/read-repair/" + sig, fmt.Sprintf("the caller overwrote the bytes a Get had returned; the stored value now reads %q (err %v)", got, err)
		}
		return "", ""
	}
	if cs.PutBuf {
		buf := []byte("original-1")
		var perr error
		var pipe *olric.DMapPipeline
		var result func() error
		if strings.HasPrefix(cs.Via, "Pipeline.") {
			if pipe, perr = dm.Pipeline(); perr != nil {
				return "setup", perr.Error()
			}
			defer pipe.Close()
		}
		switch cs.Via {
		case "Put":
			perr = dm.Put(ctx, key, buf)
		case "Put+EX":
			perr = dm.Put(ctx, key, buf, olric.EX(time.Hour))
		case "Put+NX":
			perr = dm.Put(ctx, key, buf, olric.NX())
		case "GetPut":
			_, perr = dm.GetPut(ctx, key, buf)
		case "Pipeline.Put":
			var f *olric.FuturePut
			if f, perr = pipe.Put(ctx, key, buf); perr == nil {
				result = f.Result
			}
		case "Pipeline.Put+EX":
			var f *olric.FuturePut
			if f, perr = pipe.Put(ctx, key, buf, olric.EX(time.Hour)); perr == nil {
				result = f.Result
			}
		case "Pipeline.GetPut":
			var f *olric.FutureGetPut
			if f, perr = pipe.GetPut(ctx, key, buf); perr == nil {
				result = func() error { _, err := f.Result(); return err }
			}
		}
		if perr != nil {
			return "setup", perr.Error()
		}
		// the call has returned: the buffer is the caller's again
		copy(buf, "XXXXXXXXXX")
		if pipe != nil {
			if err := pipe.Exec(ctx); err != nil {
				return "setup", err.Error()
			}
			if err := result(); err != nil && !(cs.Via == "Pipeline.GetPut" && errors.Is(err, olric.ErrKeyNotFound)) {
				return "setup", err.Error()
			}
		}
		mode := ""
		if cs.Async {
			// the replication the Put started runs only now, after the buffer was rewritten
			if cl.DeliverAsync() == 0 {
				return "setup", "asynchronous replication: no replication call was queued"
			}
			mode = "/async"
			// every stored copy of the key (primary and backup) holds what was passed to Put
			copies := 0
			for _, m := range cl.Live() {
				for _, f := range m.DB.VerifDMap().VerifFragments() {
					if f.Name != "dmap.d" {
						continue
					}
					for _, e := range f.Entries {
						if e.Key != key {
							continue
						}
						copies++
						if !strings.Contains(string(e.Value), "original-1") {
							return "put-buffer-aliased/path=" + cs.Path + "/via=" + cs.Via + mode + "/" + f.Kind + "-copy", fmt.Sprintf("after %s returned the caller overwrote its buffer, then the asynchronous replication ran; the %s copy on %s holds %q", cs.Via, f.Kind, m.Name, e.Value)
						}
					}
				}
			}
			if copies != 2 {
				return "setup", fmt.Sprintf("asynchronous replication: %d stored copies instead of 2", copies)
			}
		}
		got, err := readStored()
		if err != nil || got != "original-1" {
			return "put-buffer-aliased/path=" + cs.Path + "/via=" + cs.Via + mode, fmt.Sprintf("after %s returned the caller overwrote its buffer; the stored value now reads %q (err %v)", cs.Via, got, err)
		}
		return "", ""
	}
	const orig = "original-1"
	if cs.Tail {
		// a neighbour in the same partition sized so that the entry under test (29 + len(key) + 10
		// bytes) ends one byte before the 128-byte table does (the last position the engine accepts)
		part := cl.PartID("d", key)
		nk := cl.FindKey("n", func(k string) bool { return cl.PartID("d", k) == part })
		pad := cs.Table - (29 + len(key) + len(orig)) - 29 - len(nk) - 1 // a table is full one byte before its end
		if pad < 1 {
			return "setup", "tail layout does not fit"
		}
		if err := ownerDM.Put(ctx, nk, []byte(strings.Repeat("P", pad))); err != nil {
			return "setup", err.Error()
		}
	}
	if err := ownerDM.Put(ctx, key, []byte(orig)); err != nil {
		return "setup", err.Error()
	}
	if cs.Tail {
		tables := 0
		for _, f := range owner.DB.VerifDMap().VerifFragments() {
			if f.Name == "dmap.d" && f.Kind == "primary" && f.PartID == cl.PartID("d", key) {
				tables = len(f.Tables)
			}
		}
		if tables != 1 {
			return "setup", fmt.Sprintf("tail layout: the fragment has %d tables, the neighbour and the entry were meant to fill exactly one", tables)
		}
	}
	fill := 0
	churn := func() {
		// write and delete neighbours in the same partition so that tables fill up, get
		// compacted, recycled and reused
		part := cl.PartID("d", key)
		n := 0
		cl.FindKey(fmt.Sprintf("c%d-", fill), func(k string) bool {
			if cl.PartID("d", k) == part {
				ownerDM.Put(ctx, k, []byte("ZZZZZZZZZZZZZZZZZZZZ"))
				ownerDM.Delete(ctx, k)
				n++
			}
			return n >= 6
		})
		fill++
		owner.DB.VerifDMap().VerifCompactPartition(part)
		n = 0
		cl.FindKey(fmt.Sprintf("d%d-", fill), func(k string) bool {
			if cl.PartID("d", k) == part {
				ownerDM.Put(ctx, k, []byte("YYYYYYYYYYYYYYYYYYYY"))
				n++
			}
			return n >= 3
		})
	}
	compactAll := func() {
		for _, m := range cl.Live() {
			for p := uint64(0); p < cl.O.Partitions; p++ {
				m.DB.VerifDMap().VerifCompactPartition(p)
			}
		}
	}
	for _, ev := range cs.Pre {
		switch ev {
		case "fill":
			part := cl.PartID("d", key)
			n := 0
			cl.FindKey("f-", func(k string) bool {
				if cl.PartID("d", k) == part {
					ownerDM.Put(ctx, k, []byte("WWWWWWWWWWWWWWWWWWWW"))
					n++
				}
				return n >= 8
			})
		case "compact":
			compactAll()
		case "churn":
			churn()
		}
	}
	// obtain the handle
	var hb *[]byte // a byte slice the caller holds
	var hs *string // or a string
	stored := orig // what the store should hold for key now
	switch cs.Handle {
	case "Get.Byte":
		r, err := dm.Get(ctx, key)
		if err != nil {
			return "setup", err.Error()
		}
		b, _ := r.Byte()
		hb = &b
	case "Get.String":
		r, err := dm.Get(ctx, key)
		if err != nil {
			return "setup", err.Error()
		}
		s, _ := r.String()
		hs = &s
	case "Get.Scan(*[]byte)":
		r, err := dm.Get(ctx, key)
		if err != nil {
			return "setup", err.Error()
		}
		var b []byte
		r.Scan(&b)
		hb = &b
	case "Get.Scan(*string)":
		r, err := dm.Get(ctx, key)
		if err != nil {
			return "setup", err.Error()
		}
		var s string
		r.Scan(&s)
		hs = &s
	case "GetPut.Byte":
		r, err := dm.GetPut(ctx, key, []byte("replaced-2"))
		if err != nil || r == nil {
			return "setup", fmt.Sprintf("GetPut: %v", err)
		}
		b, _ := r.Byte()
		hb = &b
		stored = "replaced-2"
	case "Iterator.Key", "EmbeddedIterator.Key":
		var it olric.Iterator
		var err error
		if cs.Handle == "Iterator.Key" {
			it, err = dm.Scan(ctx)
		} else {
			// EmbeddedDMap.Scan with the simulated network's cluster client (see VerifEmbeddedScan)
			member := owner
			if cs.Path == "EN" {
				member = other
			}
			var cc *olric.ClusterClient
			cc, err = cl.ClusterClient(member)
			if err == nil {
				it, err = olric.VerifEmbeddedScan(ctx, dm.(*olric.EmbeddedDMap), cc)
			}
		}
		if err != nil {
			return "setup", err.Error()
		}
		for it.Next() {
			if it.Key() == key {
				s := it.Key()
				hs = &s
			}
		}
		it.Close()
		if hs == nil {
			return "setup", "iterator did not yield the key"
		}
	}
	snapshot := orig
	if cs.Handle == "Iterator.Key" || cs.Handle == "EmbeddedIterator.Key" {
		snapshot = key
	}
	current := func() string {
		if hb != nil {
			return string(*hb)
		}
		return *hs
	}
	if current() != snapshot {
		return "setup", fmt.Sprintf("handle reads %q right away, expected %q", current(), snapshot)
	}
	mutated := false
	for i, ev := range cs.Seq {
		switch ev {
		case "overwrite-same-size":
			stored = "overwrite3"
			err = ownerDM.Put(ctx, key, []byte(stored))
		case "overwrite-larger":
			stored = "a-much-larger-value-than-before-4"
			err = ownerDM.Put(ctx, key, []byte(stored))
		case "delete":
			_, err = ownerDM.Delete(ctx, key)
			stored = ""
		case "churn":
			churn()
		case "compact":
			compactAll()
		case "mutate-handle":
			if hb != nil {
				for j := range *hb {
					(*hb)[j] = '#'
				}
				mutated = true
				snapshot = strings.Repeat("#", len(snapshot))
			}
		case "reread-into-same-variable":
			// the caller reads once more (another value of the same length) the same way INTO THE SAME
			// VARIABLE, as in a loop with one destination; the slice it was handed first (it may have kept
			// it elsewhere) is what stays under watch
			if hb == nil || stored == "" || (cs.Handle != "Get.Byte" && cs.Handle != "Get.Scan(*[]byte)" && cs.Handle != "GetPut.Byte") {
				break
			}
			stored = strings.Repeat("R", len(orig))
			if err = ownerDM.Put(ctx, key, []byte(stored)); err != nil {
				break
			}
			first := *hb
			var r2 *olric.GetResponse
			if r2, err = dm.Get(ctx, key); err != nil {
				break
			}
			if cs.Handle == "Get.Scan(*[]byte)" {
				err = r2.Scan(hb)
			} else {
				*hb, err = r2.Byte()
			}
			if err == nil && string(*hb) != stored {
				return "reread-wrong-value/" + sig, fmt.Sprintf("second read into the same variable gives %q, stored %q", *hb, stored)
			}
			hb = &first
		case "join+balance":
			if _, jerr := cl.StartMember(2); jerr != nil {
				return "setup", jerr.Error()
			}
			if cl.Stabilise() < 0 {
				return "setup", "cluster did not stabilise after the join"
			}
			// the key may live on another member now: read through whoever owns it
			owner = cl.Owner(cl.Live()[0], "d", key)
			ownerDM, _ = owner.Emb.NewDMap("d")
		}
		if err != nil {
			return "setup", fmt.Sprintf("%s: %v", ev, err)
		}
		if got := current(); got != snapshot {
			return "returned-value-changed/" + sig + "/after=" + ev, fmt.Sprintf("the value handed to the caller read %q when it was returned and reads %q after step %d (%s)", snapshot, got, i+1, ev)
		}
		if mutated {
			got, gerr := readStored()
			switch {
			case stored == "" && gerr == nil:
				return "caller-mutation-reaches-store/" + sig, fmt.Sprintf("key was deleted but reads %q", got)
			case stored != "" && (gerr != nil || got != stored):
				return "caller-mutation-reaches-store/" + sig, fmt.Sprintf("the caller overwrote the bytes it was handed; the stored value now reads %q (err %v), it should still be %q", got, gerr, stored)
			}
		}
	}
	return "", ""
}

type c18Job struct {
	Cases []c18Case `json:"cases"`
}
type c18Res struct{ Keys, Whats []string }

func init() {
	core.RegisterJob("c18", func(raw json.RawMessage) (interface{}, error) {
		var p c18Job
		if err := json.Unmarshal(raw, &p); err != nil {
			return nil, err
		}
		var r c18Res
		for _, cs := range p.Cases {
			k, w := c18Run(cs)
			r.Keys, r.Whats = append(r.Keys, k), append(r.Whats, w)
		}
		return r, nil
	})
	core.Register(&core.Check{ID: "C18", Level: "model_checking", Run: func(c *core.Ctx) {
		cases := c18Cases(c.Tier)
		var params []interface{}
		for i := 0; i < len(cases); i += 24 {
			j := i + 24
			if j > len(cases) {
				j = len(cases)
			}
			params = append(params, c18Job{cases[i:j]})
		}
		steps, setup := 0, 0
		core.RunJobs("c18", params, 10*time.Minute, func(idx int, res json.RawMessage, crash string) {
			jp := params[idx].(c18Job)
			if crash != "" {
				c.Violate("C18/worker-crash", "worker failed: "+crash, jp.Cases[0])
				return
			}
			var r c18Res
			json.Unmarshal(res, &r)
			for i, k := range r.Keys {
				steps += len(jp.Cases[i].Seq) + 1
				if k == "" {
					continue
				}
				if k == "setup" {
					setup++
					c.Violate("C18/harness-setup", "scenario could not be built: "+r.Whats[i]+" ("+jp.Cases[i].String()+")", jp.Cases[i])
					continue
				}
				c.Violate("C18/"+k, jp.Cases[i].String()+": "+r.Whats[i], jp.Cases[i])
			}
		})
		for i := 0; i < len(cases); i += len(cases)/6 + 1 {
			c.Sample(cases[i].String())
		}
		c.Cov["states"] = len(cases)
		c.Cov["transitions"] = steps
		c.Cov["evaluations"] = len(cases)
		c.Cov["distinct_nontrivial"] = len(cases)
		c.Cov["exhaustive"] = true
		c.Cov["traces_validated_against_impl"] = 0
		c.Cov["rule"] = "every way of obtaining a value (Get.Byte, Get.String, Get.Scan into *[]byte / *string, GetPut's old value, iterator key) x client path {EO, EN, CC} x every sequence up to the length bound over {overwrite same size, overwrite larger, delete, churn that fills / compacts / recycles / reuses tables of the partition, compaction, caller overwrites the returned bytes, join + rebalancing} x table sizes {128 B, 64 KiB}; after every step the held value must equal the copy taken when it was returned, and once the caller has scribbled over it a fresh read must still return the stored value; plus: the caller overwrites the buffer it passed to Put"
	}})
}
