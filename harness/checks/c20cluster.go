package checks

import (
	"fmt"
	"strings"

	"github.com/olric-data/olric/internal/kvstore/table"
	"github.com/olric-data/olric/internal/verif/clustermc"
	"github.com/olric-data/olric/internal/verif/sched"
	"github.com/olric-data/olric/internal/verif/simcluster"
)

// C20, cluster level: churn on a replicated cluster with the real compaction worker body
// (Service.doCompaction) on every member; after every compaction pass every fragment of the DMap -
// primary and backup, on every member - must be within the storage bounds.

type c20Sys struct {
	Cl      *simcluster.Cluster
	KV      simcluster.KV
	Keys    []string
	Present map[string]bool
	Ver     int
	Name    string
}

func c20Bounds(s *c20Sys, after string) []clustermc.Fail {
	var fs []clustermc.Fail
	for _, m := range s.Cl.Live() {
		for _, f := range m.DB.VerifDMap().VerifFragments() {
			if f.Name != "dmap.d" {
				continue
			}
			live := len(f.Entries)
			n := 0
			for i, t := range f.Tables {
				if t.State == table.RecycledState {
					continue
				}
				n++
				if float64(t.Garbage) >= float64(t.Allocated)*0.4 {
					fs = append(fs, clustermc.Fail{Key: "cluster/garbage-above-threshold/" + f.Kind, What: fmt.Sprintf("%s: member %s %s fragment of partition %d: table #%d has garbage %d of %d allocated after a compaction pass (threshold 40%%)", after, m.Name, f.Kind, f.PartID, i, t.Garbage, t.Allocated)})
				}
			}
			if n > live+2 {
				fs = append(fs, clustermc.Fail{Key: "cluster/too-many-tables/" + f.Kind, What: fmt.Sprintf("%s: member %s %s fragment of partition %d: %d tables for %d live keys after a compaction pass (bound: keys + 2)", after, m.Name, f.Kind, f.PartID, n, live)})
			}
		}
	}
	return fs
}

func c20ClusterSpecs(tier string) []*clustermc.Spec {
	type cf struct{ n, r int }
	cfs := []cf{{2, 2}}
	depth := 5
	if tier == "thorough" {
		cfs = append(cfs, cf{3, 2}, cf{1, 1}, cf{3, 3})
		depth = 6
	}
	var out []*clustermc.Spec
	for _, c := range cfs {
		c := c
		name := fmt.Sprintf("cluster churn N=%d R=%d table=128", c.n, c.r)
		newSys := func() interface{} {
			sched.ResetClock()
			cl := simcluster.New(simcluster.Opts{N: c.n, Replicas: c.r, WriteQ: 1, ReadQ: 1, Partitions: 3, TableSize: 128})
			s := &c20Sys{Cl: cl, Present: map[string]bool{}, Name: name}
			// two keys of one partition (owned by the first member or not, whatever the ring says) and
			// one key of a partition with another primary owner, so that every member holds backup
			// fragments of partitions it does not own as well as of partitions it owns
			p0 := cl.PartID("d", "a0")
			o0 := cl.Owner(cl.Members[0], "d", "a0")
			s.Keys = []string{"a0"}
			s.Keys = append(s.Keys, cl.FindKey("a", func(k string) bool { return k != "a0" && cl.PartID("d", k) == p0 }))
			s.Keys = append(s.Keys, cl.FindKey("b", func(k string) bool {
				return cl.PartID("d", k) != p0 && (c.n == 1 || cl.Owner(cl.Members[0], "d", k) != o0)
			}))
			kv, err := cl.Entry("EO", "d", s.Keys[0])
			if err != nil {
				panic(err)
			}
			s.KV = kv
			return s
		}
		var alpha []clustermc.Ev
		for i := 0; i < 3; i++ {
			alpha = append(alpha, clustermc.Ev{K: "put", A: i}, clustermc.Ev{K: "del", A: i})
		}
		alpha = append(alpha, clustermc.Ev{K: "compact"})
		out = append(out, &clustermc.Spec{
			Name: name, Depth: depth, New: newSys,
			Events: func(s interface{}) []clustermc.Ev { return alpha },
			Apply: func(si interface{}, e clustermc.Ev) []clustermc.Fail {
				s := si.(*c20Sys)
				switch e.K {
				case "put":
					s.Ver++
					if r := s.KV.Put(s.Keys[e.A], []byte(fmt.Sprintf("0123456789-012345-%04d", s.Ver)), simcluster.PutOpt{}); r.Err != "" {
						return []clustermc.Fail{{Key: "cluster/put-failed", What: r.Err}}
					}
					s.Present[s.Keys[e.A]] = true
				case "del":
					if r := s.KV.Del(s.Keys[e.A]); r.Err != "" {
						return []clustermc.Fail{{Key: "cluster/del-failed", What: r.Err}}
					}
					delete(s.Present, s.Keys[e.A])
				case "compact":
					// the compaction worker body, on every member for every partition
					for _, m := range s.Cl.Live() {
						for p := uint64(0); p < s.Cl.O.Partitions; p++ {
							m.DB.VerifDMap().VerifCompactPartition(p)
						}
					}
					return c20Bounds(s, "after the compaction pass")
				}
				return nil
			},
			Canon: func(si interface{}) string {
				s := si.(*c20Sys)
				var b strings.Builder
				for _, m := range s.Cl.Live() {
					for _, f := range m.DB.VerifDMap().VerifFragments() {
						fmt.Fprintf(&b, "%s%s%d[", m.Name[len(m.Name)-1:], f.Kind[:1], f.PartID)
						for _, t := range f.Tables {
							fmt.Fprintf(&b, "(s%d o%d g%d:", t.State, t.Offset, t.Garbage)
							for _, h := range t.HKeys {
								fmt.Fprintf(&b, "%d,", h[1])
							}
							b.WriteByte(')')
						}
						for _, e := range f.Entries {
							b.WriteString(e.Key + ",")
						}
						b.WriteByte(']')
					}
				}
				return b.String()
			},
			// in every state: one more compaction pass on a throw-away copy is not possible (live
			// objects cannot be cloned), so the bounds are evaluated by the compact event itself
			Describe: func(e clustermc.Ev) string {
				if e.K == "compact" {
					return "compaction pass (every member, every partition)"
				}
				return fmt.Sprintf("%s(key#%d)", e.K, e.A)
			},
			NonTrivial: func(si interface{}) bool {
				s := si.(*c20Sys)
				for _, m := range s.Cl.Live() {
					for _, f := range m.DB.VerifDMap().VerifFragments() {
						if f.Name == "dmap.d" && len(f.Tables) >= 2 {
							return true
						}
					}
				}
				return false
			},
		})
	}
	return out
}

func init() { clustermc.Specs["C20"] = c20ClusterSpecs }
