package checks

import (
	"context"
	"fmt"
	"math"
	"sort"
	"strings"

	"github.com/olric-data/olric/internal/cluster/partitions"
	"github.com/olric-data/olric/internal/discovery"
	"github.com/olric-data/olric/internal/verif/clustermc"
	"github.com/olric-data/olric/internal/verif/confx"
	"github.com/olric-data/olric/internal/verif/core"
	"github.com/olric-data/olric/internal/verif/sched"
	"github.com/olric-data/olric/internal/verif/simcluster"
)

// C13: after any sequence of joins and leaves, once membership has stabilised, every member and
// client holds the same valid, balanced routing table.

type c13Params struct {
	Name       string
	Opts       simcluster.Opts
	MaxMembers int
	Depth      int
	Data       bool // a few keys are stored first, so that previous owners stay listed until drained
}

type c13Sys struct {
	P      *c13Params
	Cl     *simcluster.Cluster
	Rounds int
	Trail  []string
}

func c13New(p *c13Params) *c13Sys {
	sched.ResetClock()
	s := &c13Sys{P: p, Cl: simcluster.New(p.Opts)}
	if p.Data {
		dm, err := s.Cl.Members[0].Emb.NewDMap("d")
		if err != nil {
			panic(err)
		}
		kv := simcluster.WrapDMap("", dm)
		for i := 0; i < 48; i++ { // enough keys for every partition (primary and backup copies) to hold data
			kv.Put(fmt.Sprintf("key-%d", i), []byte("v"), simcluster.PutOpt{})
		}
	}
	return s
}

// liveByAge returns the live members, oldest first.
func (s *c13Sys) liveByAge() []*simcluster.Member {
	l := s.Cl.Live()
	sort.SliceStable(l, func(i, j int) bool {
		return l[i].DB.VerifRT().This().Birthdate < l[j].DB.VerifRT().This().Birthdate
	})
	return l
}

func (s *c13Sys) stopped() []*simcluster.Member {
	seen := map[string]bool{}
	var out []*simcluster.Member
	for i := len(s.Cl.Members) - 1; i >= 0; i-- {
		m := s.Cl.Members[i]
		if seen[m.Name] {
			continue
		}
		seen[m.Name] = true
		if !m.Alive {
			out = append(out, m)
		}
	}
	sort.Slice(out, func(i, j int) bool { return out[i].Idx < out[j].Idx })
	return out
}

// pick: 0 = oldest, 1 = youngest, 2 = a middle one
func pickMember(l []*simcluster.Member, which int) *simcluster.Member {
	switch which {
	case 0:
		return l[0]
	case 1:
		return l[len(l)-1]
	}
	return l[len(l)/2]
}

var c13Which = []string{"oldest", "youngest", "middle"}

func (s *c13Sys) Events() []clustermc.Ev {
	var evs []clustermc.Ev
	live := s.liveByAge()
	if len(live) < s.P.MaxMembers {
		evs = append(evs, clustermc.Ev{K: "join"})
	}
	if len(live) > 1 {
		n := 2
		if len(live) > 2 {
			n = 3
		}
		for w := 0; w < n; w++ {
			evs = append(evs, clustermc.Ev{K: "leave", A: w}, clustermc.Ev{K: "crash", A: w})
			// restart under the same address before the others noticed the crash
			evs = append(evs, clustermc.Ev{K: "crash-restart", A: w})
		}
	}
	if st := s.stopped(); len(st) > 0 && len(live) < s.P.MaxMembers {
		evs = append(evs, clustermc.Ev{K: "rejoin"})
	}
	return evs
}

func c13Describe(e clustermc.Ev) string {
	switch e.K {
	case "join":
		return "Join(new member)"
	case "rejoin":
		return "Rejoin(stopped member, same address)"
	case "leave":
		return "Leave(" + c13Which[e.A] + ")"
	case "crash":
		return "Crash+Detect(" + c13Which[e.A] + ")"
	case "crash-restart":
		return "Crash(" + c13Which[e.A] + ")+RestartBeforeDetection"
	}
	return e.String()
}

func (s *c13Sys) Apply(e clustermc.Ev) []clustermc.Fail {
	var fs []clustermc.Fail
	live := s.liveByAge()
	switch e.K {
	case "join":
		idx := 0
		for _, m := range s.Cl.Members {
			if m.Idx >= idx {
				idx = m.Idx + 1
			}
		}
		if _, err := s.Cl.StartMember(idx); err != nil {
			return []clustermc.Fail{{Key: "join-failed", What: "a new member could not join: " + err.Error()}}
		}
	case "rejoin":
		m := s.stopped()[0]
		if _, err := s.Cl.StartMember(m.Idx); err != nil {
			return []clustermc.Fail{{Key: "rejoin-failed", What: "a stopped member could not re-join under its address: " + err.Error()}}
		}
	case "leave":
		s.Cl.Leave(pickMember(live, e.A))
	case "crash":
		s.Cl.Crash(pickMember(live, e.A))
		s.Cl.DetectAll()
	case "crash-restart":
		m := pickMember(live, e.A)
		s.Cl.Crash(m)
		if _, err := s.Cl.StartMember(m.Idx); err != nil {
			return []clustermc.Fail{{Key: "restart-failed", What: "restart under the same address failed: " + err.Error()}}
		}
	}
	s.Rounds = s.Cl.Stabilise()
	if s.Rounds < 0 {
		fs = append(fs, clustermc.Fail{Key: "not-stabilising", What: "routing tables / data placement still changing after 24 rounds of push + balance"})
	}
	return fs
}

func memberNames(ms []string) string { return "[" + strings.Join(ms, " ") + "]" }

// Check is the routing-table oracle on the stabilised state.
func (s *c13Sys) Check() []clustermc.Fail {
	var fs []clustermc.Fail
	add := func(k, f string, a ...interface{}) {
		fs = append(fs, clustermc.Fail{Key: k, What: fmt.Sprintf(f, a...)})
	}
	live := s.liveByAge()
	if len(live) == 0 {
		return nil
	}
	liveID := map[uint64]string{}
	for _, m := range live {
		liveID[m.DB.VerifRT().This().ID] = m.Name
	}
	n := len(live)
	wantBackups := s.P.Opts.Replicas
	if n < wantBackups {
		wantBackups = n
	}
	wantBackups--
	ref := live[0].DB.VerifRT().VerifTable()
	// holders of data per partition
	holds := func(m *simcluster.Member, kind string, part uint64) bool {
		for _, f := range m.DB.VerifDMap().VerifFragments() {
			if f.Kind == kind && f.PartID == part && f.Stats.Length > 0 {
				return true
			}
		}
		return false
	}
	// 1. identical tables on every member
	for _, m := range live[1:] {
		t := m.DB.VerifRT().VerifTable()
		for p := uint64(0); p < s.P.Opts.Partitions; p++ {
			if idsOf(t[p].Owners) != idsOf(ref[p].Owners) || idsOf(t[p].Backups) != idsOf(ref[p].Backups) {
				add("tables-differ", "partition %d: %s has owners=%s backups=%s, %s has owners=%s backups=%s", p, live[0].Name, namesOf(ref[p].Owners), namesOf(ref[p].Backups), m.Name, namesOf(t[p].Owners), namesOf(t[p].Backups))
				break
			}
		}
	}
	perMember := map[string]int{}
	for p := uint64(0); p < s.P.Opts.Partitions; p++ {
		r := ref[p]
		if len(r.Owners) == 0 {
			add("no-owner", "partition %d has no owner", p)
			continue
		}
		prim := r.Owners[len(r.Owners)-1]
		if _, ok := liveID[prim.ID]; !ok {
			add("primary-not-live", "partition %d: primary owner %s (id %d) is not a live member", p, prim.Name, prim.ID)
		}
		perMember[prim.Name]++
		for _, o := range r.Owners[:len(r.Owners)-1] {
			name, ok := liveID[o.ID]
			if !ok {
				add("departed-member-listed", "partition %d: previous owner %s (id %d) is not a live member", p, o.Name, o.ID)
				continue
			}
			if !holds(s.Cl.ByName(name), "primary", p) {
				add("empty-previous-owner-listed", "partition %d: %s is still listed as an owner but holds no data for it", p, o.Name)
			}
		}
		if len(r.Backups) < wantBackups {
			add("too-few-backups", "partition %d: %d backup owners listed, min(ReplicaCount,members)-1 = %d", p, len(r.Backups), wantBackups)
		}
		cur := r.Backups
		if len(cur) > wantBackups {
			cur = r.Backups[len(r.Backups)-wantBackups:]
			for _, o := range r.Backups[:len(r.Backups)-wantBackups] {
				name, ok := liveID[o.ID]
				if !ok {
					add("departed-member-listed", "partition %d: earlier backup owner %s (id %d) is not a live member", p, o.Name, o.ID)
				} else if !holds(s.Cl.ByName(name), "backup", p) {
					add("empty-previous-backup-listed", "partition %d: %s is still listed as a backup owner but holds no data for it", p, o.Name)
				}
			}
		}
		seen := map[uint64]bool{}
		for _, o := range cur {
			if _, ok := liveID[o.ID]; !ok {
				add("departed-member-listed", "partition %d: backup owner %s (id %d) is not a live member", p, o.Name, o.ID)
			}
			if o.ID == prim.ID {
				add("backup-is-primary", "partition %d: %s is both primary and backup owner", p, o.Name)
			}
			if seen[o.ID] {
				add("duplicate-backup", "partition %d: %s listed twice among the current backup owners", p, o.Name)
			}
			seen[o.ID] = true
		}
	}
	// 6. load
	lf := s.P.Opts.LoadFactor
	if lf == 0 {
		lf = 1.25
	}
	limit := int(math.Ceil(float64(s.P.Opts.Partitions) / float64(n) * lf))
	for name, c := range perMember {
		if c > limit {
			add("over-load-factor", "%s owns %d of %d partitions with %d members: more than ceil(P/N*%.2f)=%d", name, c, s.P.Opts.Partitions, n, lf, limit)
		}
	}
	// 7. coordinator = oldest live member, on every member
	oldest := live[0].DB.VerifRT().This()
	for _, m := range live {
		if c := m.DB.VerifRT().Discovery().GetCoordinator(); c.ID != oldest.ID {
			add("coordinator-not-oldest", "%s believes %s is the coordinator, the oldest live member is %s", m.Name, c.Name, oldest.Name)
		}
	}
	// 1b/8. a cluster client obtains the same table and maps keys to the same owner
	cc, err := s.Cl.ClusterClient(live[len(live)-1])
	if err != nil {
		add("client-cannot-connect", "cluster client: %v", err)
		return fs
	}
	rt, err := cc.RoutingTable(context.Background())
	if err != nil {
		add("client-routing-table", "ClusterClient.RoutingTable: %v", err)
		return fs
	}
	for p := uint64(0); p < s.P.Opts.Partitions; p++ {
		var want, wantB []string
		for _, o := range ref[p].Owners {
			want = append(want, o.Name)
		}
		for _, o := range ref[p].Backups {
			wantB = append(wantB, o.Name)
		}
		got := rt[p]
		if memberNames(got.PrimaryOwners) != memberNames(want) || memberNames(got.ReplicaOwners) != memberNames(wantB) {
			add("client-table-differs", "partition %d: client sees owners=%s backups=%s, members have owners=%s backups=%s", p, memberNames(got.PrimaryOwners), memberNames(got.ReplicaOwners), memberNames(want), memberNames(wantB))
			break
		}
	}
	for i := 0; i < 6; i++ {
		key := fmt.Sprintf("probe-%d", i)
		part := partitions.HKey("d", key) % s.P.Opts.Partitions
		o0 := s.Cl.Owner(live[0], "d", key)
		for _, m := range live[1:] {
			if o := s.Cl.Owner(m, "d", key); o != o0 {
				add("key-owner-differs", "key %s (partition %d): %s maps it to %v, %s to %v", key, part, live[0].Name, o0, m.Name, o)
			}
		}
	}
	return fs
}

func idsOf(ms []discovery.Member) string {
	var out []string
	for _, m := range ms {
		out = append(out, fmt.Sprint(m.ID))
	}
	return strings.Join(out, ",")
}

func namesOf(ms []discovery.Member) string {
	var out []string
	for _, m := range ms {
		out = append(out, m.Name)
	}
	return "[" + strings.Join(out, " ") + "]"
}

// Canon: membership shape (ages as ranks) + routing table + data placement, names kept (they drive hashing).
func (s *c13Sys) Canon() string {
	var b strings.Builder
	live := s.liveByAge()
	for i, m := range live {
		fmt.Fprintf(&b, "%s#%d,", m.Name[len(m.Name)-1:], i)
	}
	for _, m := range s.stopped() {
		fmt.Fprintf(&b, "x%s,", m.Name[len(m.Name)-1:])
	}
	b.WriteByte('|')
	if len(live) > 0 {
		t := live[0].DB.VerifRT().VerifTable()
		for p := uint64(0); p < s.P.Opts.Partitions; p++ {
			fmt.Fprintf(&b, "%v/%v;", namesOf(t[p].Owners), namesOf(t[p].Backups))
		}
	}
	for _, m := range live {
		for _, f := range m.DB.VerifDMap().VerifFragments() {
			if f.Stats.Length > 0 {
				fmt.Fprintf(&b, "%s%s%d=%d,", m.Name[len(m.Name)-1:], f.Kind[:1], f.PartID, f.Stats.Length)
			}
		}
	}
	return b.String()
}

// c13Table: the routing table of the coordinator, per partition (primary owners, backup owners).
func c13Table(s *c13Sys) [][2][]string {
	t := s.liveByAge()[0].DB.VerifRT().VerifTable()
	var out [][2][]string
	for p := uint64(0); p < s.P.Opts.Partitions; p++ {
		e := [2][]string{{}, {}}
		for _, o := range t[p].Owners {
			e[0] = append(e[0], o.Name)
		}
		for _, o := range t[p].Backups {
			e[1] = append(e[1], o.Name)
		}
		out = append(out, e)
	}
	return out
}

// c13Traces: membership histories (join / graceful leave / crash of the oldest, youngest or a
// middle member; no stored data) with the table the simulated cluster settles on after every event,
// for replay on real members (child processes under the same addresses, real memberlist with its
// failure detector, real timers).
func c13Traces(max int) []confx.Trace {
	var out []confx.Trace
	type cf struct{ n0, r int }
	var all []confx.Trace
	for _, c := range []cf{{2, 2}, {1, 1}, {3, 2}} {
		p := &c13Params{Name: "conformance", MaxMembers: 4, Opts: simcluster.Opts{N: c.n0, Replicas: c.r, WriteQ: 1, ReadQ: 1, Partitions: 7}}
		usable := func(e clustermc.Ev) bool { return e.K == "join" || e.K == "leave" || e.K == "crash" || e.K == "rejoin" }
		var paths [][]clustermc.Ev
		for _, e := range c13New(p).Events() {
			if !usable(e) {
				continue
			}
			paths = append(paths, []clustermc.Ev{e})
			s := c13New(p)
			s.Apply(e)
			for _, e2 := range s.Events() {
				if usable(e2) {
					paths = append(paths, []clustermc.Ev{e, e2})
				}
			}
		}
		for _, path := range paths {
			s := c13New(p)
			t := confx.Trace{ID: fmt.Sprintf("c13-n%d-r%d-%d", c.n0, c.r, len(all)), Members: c.n0, R: c.r, P: 7, Entry: "membership", Table0: c13Table(s)}
			ok := true
			for _, e := range path {
				before := map[int]bool{}
				for _, m := range s.Cl.Live() {
					before[m.Idx] = true
				}
				if len(s.Apply(e)) > 0 {
					ok = false
					break
				}
				after := map[int]bool{}
				for _, m := range s.Cl.Live() {
					after[m.Idx] = true
				}
				idx := -1
				for i := range before {
					if !after[i] {
						idx = i
					}
				}
				for i := range after {
					if !before[i] {
						idx = i
					}
				}
				t.Mem = append(t.Mem, confx.MemStep{Op: e.K, Idx: idx, Table: c13Table(s)})
			}
			if ok {
				all = append(all, t)
			}
		}
	}
	if max <= 0 || len(all) <= max {
		return all
	}
	stride := (len(all) + max - 1) / max
	for i := 0; i < len(all); i += stride {
		out = append(out, all[i])
	}
	return out
}

func c13Specs(tier string) []*clustermc.Spec {
	quick := tier != "thorough"
	type cf struct {
		n0, r int
		p     uint64
		data  bool
		ports []int // other member names (simcluster.Opts.PortOf): another hash ring for the same events
	}
	// stored data is a dimension of its own for EVERY replica count: owners that still hold data
	// stay listed, which is where the pruning / re-ordering logic of the distribution code lives
	cfs := []cf{{1, 1, 7, false, nil}, {2, 2, 7, false, nil}, {3, 3, 13, false, nil}, {2, 2, 7, true, nil}, {2, 3, 7, true, nil}, {3, 3, 7, true, nil},
		{2, 2, 7, true, []int{0, 2, 4, 6, 8, 1, 3, 5, 7}}}
	depth, maxM := 3, 4
	if !quick {
		depth, maxM = 4, 5
		cfs = append(cfs, cf{3, 2, 13, true, nil}, cf{1, 3, 7, false, nil}, cf{2, 1, 13, true, nil}, cf{1, 3, 13, true, nil}, cf{3, 3, 13, true, nil},
			cf{1, 3, 7, true, []int{8, 5, 2, 7, 4, 1, 6, 3, 0}})
	}
	var out []*clustermc.Spec
	for _, c := range cfs {
		p := &c13Params{Name: fmt.Sprintf("N0=%d R=%d P=%d data=%v", c.n0, c.r, c.p, c.data), MaxMembers: maxM, Depth: depth, Data: c.data,
			Opts: simcluster.Opts{N: c.n0, Replicas: c.r, WriteQ: 1, ReadQ: 1, Partitions: c.p, PortOf: c.ports}}
		if c.ports != nil {
			p.Name += fmt.Sprintf(" names=%v", c.ports[:4])
		}
		out = append(out, &clustermc.Spec{
			Name: p.Name, Depth: depth,
			New:        func() interface{} { return c13New(p) },
			Events:     func(s interface{}) []clustermc.Ev { return s.(*c13Sys).Events() },
			Apply:      func(s interface{}, e clustermc.Ev) []clustermc.Fail { return s.(*c13Sys).Apply(e) },
			Canon:      func(s interface{}) string { return s.(*c13Sys).Canon() },
			Check:      func(s interface{}) []clustermc.Fail { return s.(*c13Sys).Check() },
			Describe:   c13Describe,
			NonTrivial: func(s interface{}) bool { return len(s.(*c13Sys).Cl.Live()) >= 2 },
		})
	}
	return out
}

func init() {
	clustermc.Specs["C13"] = c13Specs
	core.Register(&core.Check{ID: "C13", Level: "model_checking", Run: func(c *core.Ctx) {
		c.Cov["rule"] = "BFS over membership events {join, graceful leave / crash+detection / crash+restart-before-detection of the oldest (coordinator), youngest or a middle member, re-join of a stopped member under its address} from initial clusters of 1-3 members, replica counts 1-3, 7 or 13 partitions, with and without stored data; after each event the cluster is stabilised (all events delivered, routing pushes and balancer passes to a fixpoint) and the routing-table oracle is evaluated on every member and through a cluster client; non-trivial = distinct stabilised states with at least two live members"
		clustermc.RunFamily(c, "C13")
		max := 6
		if c.Tier == "thorough" {
			max = 40
		}
		confx.Replay(c, c13Traces(max))
		c.Assumef("membership comes from the fake discovery layer (gossip reaches everybody atomically; events are delivered in member order); it is bound to the real stack by replaying membership histories (join / leave / SIGKILL of child-process members under the same addresses, real memberlist and failure detector, real timers) and comparing the routing table the real cluster settles on with the simulated one after every event")
	}})
}
