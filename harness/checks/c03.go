package checks

import (
	"encoding/json"
	"fmt"
	"sort"
	"strings"
	"time"

	"github.com/olric-data/olric/internal/verif/clustermc"
	"github.com/olric-data/olric/internal/verif/core"
	"github.com/olric-data/olric/internal/verif/sched"
	"github.com/olric-data/olric/internal/verif/simcluster"
)

// C03: joins and (for keys that have their backups) leaves, with reads, writes and deletes placed
// before, after and between the individual steps of the hand-over: routing push, each balancer pass
// (one table per fragment), pruning of emptied owners.

type c03Params struct {
	Background bool // every partition holds a key from the start (see c03New)
	Name       string
	Opts       simcluster.Opts
	Depth      int
	MaxN       int
	Leaves     bool
}

type c03Sys struct {
	P    *c03Params
	Cl   *simcluster.Cluster
	Keys []string
	Ref  map[string]string // key -> last acknowledged value ("" / missing = deleted or never written)
	Ver  int
	// WrittenWithR: for each live key, whether its last write happened with >= ReplicaCount members
	Safe map[string]bool
	// Left: a member has left in this history. The statement promises the structural clauses
	// ("stored exactly once as a primary copy and keeps its backup copies") and reads in the middle
	// of the hand-over for JOINS; after a leave it promises the last acknowledged value once the
	// cluster has stabilised. The oracle follows that split.
	Left bool
	// Exp: virtual-clock deadline (ns) of keys written with an expiry (cleared by a plain Put / Delete)
	Exp map[string]int64
	// Expired: keys whose last write ran out (as opposed to keys removed by Delete): they must read
	// not-found; that no copy of them is stored anywhere is promised for Delete only
	Expired map[string]bool
}

func c03New(p *c03Params) *c03Sys {
	sched.ResetClock()
	s := &c03Sys{P: p, Cl: simcluster.New(p.Opts), Ref: map[string]string{}, Safe: map[string]bool{}, Exp: map[string]int64{}, Expired: map[string]bool{}}
	// three keys in at least two partitions, fixed names (member names are fixed, so placement is
	// the same in every replay)
	p0 := s.Cl.PartID("d", "k0")
	s.Keys = []string{"k0",
		s.Cl.FindKey("k", func(k string) bool { return k != "k0" && s.Cl.PartID("d", k) == p0 }),
		s.Cl.FindKey("k", func(k string) bool { return s.Cl.PartID("d", k) != p0 })}
	if p.Background {
		// one more key in every partition, written in the initial state and never touched by an
		// event: whichever partition a join reshuffles, it holds data the oracle looks at
		kv := s.kv(0)
		for part := uint64(0); part < p.Opts.Partitions; part++ {
			part := part
			k := s.Cl.FindKey(fmt.Sprintf("bg%d-", part), func(k string) bool { return s.Cl.PartID("d", k) == part })
			s.Ver++
			v := fmt.Sprintf("v%d", s.Ver)
			if r := kv.Put(k, []byte(v), simcluster.PutOpt{}); r.Err != "" {
				panic("c03: background key: " + r.Err)
			}
			s.Keys = append(s.Keys, k)
			s.Ref[k] = v
			s.Safe[k] = len(s.Cl.Live()) >= p.Opts.Replicas
		}
	}
	return s
}

func (s *c03Sys) member(which int) *simcluster.Member {
	l := s.Cl.Live()
	if which == 0 {
		return l[0]
	}
	return l[len(l)-1]
}

func (s *c03Sys) kv(which int) simcluster.KV {
	dm, err := s.member(which).Emb.NewDMap("d")
	if err != nil {
		return nil
	}
	return simcluster.WrapDMap("", dm)
}

// backupsComplete: every live key has min(R,N)-1 backup copies on the listed backup owners and the
// cluster has at least R members: the precondition under which a leave is offered.
func (s *c03Sys) backupsComplete() bool {
	n := len(s.Cl.Live())
	if n < 2 || s.P.Opts.Replicas < 2 || n < s.P.Opts.Replicas {
		return false
	}
	view := s.Cl.Live()[0]
	for k, v := range s.Ref {
		if v == "" {
			continue
		}
		if !s.Safe[k] {
			return false
		}
		want := map[string]bool{}
		for _, b := range s.Cl.Backups(view, "d", k) {
			want[b.Name] = true
		}
		have := 0
		holders := map[string]bool{}
		for _, c := range s.Cl.Copies("d", k) {
			if string(c.Value) == v {
				holders[c.Member] = true
			}
			if c.Kind == "backup" && want[c.Member] && string(c.Value) == v {
				have++
			}
		}
		if have < s.P.Opts.Replicas-1 {
			return false
		}
		// "has its backups" is read as: ReplicaCount DISTINCT members hold the value. In the middle
		// of a hand-over the backup copy can sit on the very member that still holds the only
		// primary copy (the previous owner became the backup owner of the partition): one departure
		// would then take both copies. A leave is not offered in such a state.
		if len(holders) < s.P.Opts.Replicas {
			return false
		}
	}
	// The same for a key whose newest version has run out but is still stored: that expired version
	// is what keeps an older, superseded version (left on another member by an unfinished hand-over)
	// from being read. While fewer than ReplicaCount distinct members hold it, one departure can
	// remove it and let the older version resurface - the premise "has its backups" does not hold.
	for _, k := range s.Keys {
		if s.Ref[k] != "" || !s.Expired[k] {
			continue
		}
		var newest int64
		cps := s.Cl.Copies("d", k)
		for _, c := range cps {
			if c.Timestamp > newest {
				newest = c.Timestamp
			}
		}
		holders := map[string]bool{}
		stale := false
		for _, c := range cps {
			if c.Timestamp == newest {
				holders[c.Member] = true
			} else {
				stale = true
			}
		}
		if stale && len(holders) < s.P.Opts.Replicas {
			return false
		}
	}
	return true
}

func (s *c03Sys) Events() []clustermc.Ev {
	var evs []clustermc.Ev
	n := len(s.Cl.Live())
	for i := range s.Keys[:3] {
		evs = append(evs, clustermc.Ev{K: "put", A: i, B: 0})
		if n > 1 {
			evs = append(evs, clustermc.Ev{K: "put", A: i, B: 1})
		}
		evs = append(evs, clustermc.Ev{K: "del", A: i, B: 0})
		if n > 1 {
			evs = append(evs, clustermc.Ev{K: "del", A: i, B: 1})
		}
	}
	if n < s.P.MaxN {
		evs = append(evs, clustermc.Ev{K: "join"})
	}
	evs = append(evs, clustermc.Ev{K: "push"})
	for i := 0; i < n; i++ {
		evs = append(evs, clustermc.Ev{K: "balance", A: i})
	}
	evs = append(evs, clustermc.Ev{K: "compact"}, clustermc.Ev{K: "janitor"}, clustermc.Ev{K: "put-ttl", A: 2}, clustermc.Ev{K: "tick-evict"})
	if s.P.Opts.ReadRepair {
		// with read-repair a Get writes: reads are events of their own (first key, either member)
		evs = append(evs, clustermc.Ev{K: "get", A: 0, B: 0})
		if n > 1 {
			evs = append(evs, clustermc.Ev{K: "get", A: 0, B: 1})
		}
	}
	if s.P.Leaves && s.backupsComplete() {
		evs = append(evs, clustermc.Ev{K: "leave", A: 1}, clustermc.Ev{K: "leave", A: 0})
	}
	return evs
}

func (s *c03Sys) describe(e clustermc.Ev) string {
	via := []string{"oldest member", "youngest member"}
	switch e.K {
	case "put", "del", "get":
		return fmt.Sprintf("%s(key#%d via %s)", e.K, e.A, via[e.B])
	case "balance":
		return fmt.Sprintf("balancer-pass(member#%d)", e.A)
	case "leave":
		return fmt.Sprintf("leave(%s)", via[e.A])
	case "push":
		return "routing-push"
	case "put-ttl":
		return fmt.Sprintf("put(key#%d, PX 5ms via oldest member)", e.A)
	case "tick-evict":
		return "10ms pass; eviction pass on every member (also on previous owners)"
	}
	return e.K
}

func (s *c03Sys) Apply(e clustermc.Ev) []clustermc.Fail {
	switch e.K {
	case "put":
		kv := s.kv(e.B)
		if kv == nil {
			return []clustermc.Fail{{Key: "client", What: "cannot open the DMap on a live member"}}
		}
		s.Ver++
		v := fmt.Sprintf("v%d", s.Ver)
		r := kv.Put(s.Keys[e.A], []byte(v), simcluster.PutOpt{})
		if r.Err != "" {
			return []clustermc.Fail{{Key: "put-failed/" + strings.SplitN(r.Err, ":", 2)[0], What: fmt.Sprintf("Put(%s) failed with %q while membership is changing but every member is healthy", s.Keys[e.A], r.Err)}}
		}
		s.Ref[s.Keys[e.A]] = v
		s.Safe[s.Keys[e.A]] = len(s.Cl.Live()) >= s.P.Opts.Replicas
		delete(s.Exp, s.Keys[e.A])
		delete(s.Expired, s.Keys[e.A])
	case "del":
		kv := s.kv(e.B)
		if kv == nil {
			return []clustermc.Fail{{Key: "client", What: "cannot open the DMap on a live member"}}
		}
		r := kv.Del(s.Keys[e.A])
		if r.Err != "" {
			return []clustermc.Fail{{Key: "del-failed/" + strings.SplitN(r.Err, ":", 2)[0], What: fmt.Sprintf("Delete(%s) failed with %q", s.Keys[e.A], r.Err)}}
		}
		delete(s.Ref, s.Keys[e.A])
		delete(s.Exp, s.Keys[e.A])
		delete(s.Expired, s.Keys[e.A])
	case "get":
		kv := s.kv(e.B)
		if kv == nil {
			return []clustermc.Fail{{Key: "client", What: "cannot open the DMap on a live member"}}
		}
		k := s.Keys[e.A]
		r := kv.Get(k)
		want := s.Ref[k]
		switch {
		case want == "" && r.Err == "":
			return []clustermc.Fail{{Key: "get/deleted-key-readable", What: fmt.Sprintf("key %s was deleted (or never written) but Get returns %q", k, r.Val)}}
		case want != "" && r.Err != "":
			return []clustermc.Fail{{Key: "get/key-unreadable/" + strings.SplitN(r.Err, ":", 2)[0], What: fmt.Sprintf("key %s has the acknowledged value %q but Get fails with %q", k, want, r.Err)}}
		case want != "" && string(r.Val) != want:
			return []clustermc.Fail{{Key: "get/stale-value", What: fmt.Sprintf("key %s has the acknowledged value %q but Get returns %q", k, want, r.Val)}}
		}
	case "join":
		idx := 0
		for _, m := range s.Cl.Members {
			if m.Idx >= idx {
				idx = m.Idx + 1
			}
		}
		if _, err := s.Cl.StartMember(idx); err != nil {
			return []clustermc.Fail{{Key: "join-failed", What: err.Error()}}
		}
		s.Cl.DeliverAll() // membership events only: the routing push and the moves are separate events
	case "push":
		s.Cl.Push()
	case "balance":
		l := s.Cl.Live()
		if e.A < len(l) {
			s.Cl.Balance(l[e.A])
		}
	case "compact":
		for _, m := range s.Cl.Live() {
			for p := uint64(0); p < s.Cl.O.Partitions; p++ {
				m.DB.VerifDMap().VerifCompactPartition(p)
			}
		}
	case "janitor":
		for _, m := range s.Cl.Live() {
			m.DB.VerifDMap().VerifJanitor()
		}
	case "put-ttl":
		kv := s.kv(0)
		if kv == nil {
			return []clustermc.Fail{{Key: "client", What: "cannot open the DMap on a live member"}}
		}
		s.Ver++
		v := fmt.Sprintf("v%d", s.Ver)
		k := s.Keys[e.A]
		r := kv.Put(k, []byte(v), simcluster.PutOpt{PX: 5 * time.Millisecond})
		if r.Err != "" {
			return []clustermc.Fail{{Key: "put-failed/" + strings.SplitN(r.Err, ":", 2)[0], What: fmt.Sprintf("Put(%s, PX) failed with %q while membership is changing but every member is healthy", k, r.Err)}}
		}
		s.Ref[k] = v
		s.Safe[k] = len(s.Cl.Live()) >= s.P.Opts.Replicas
		s.Exp[k] = sched.PeekNS() + int64(5*time.Millisecond)
		delete(s.Expired, k)
	case "tick-evict":
		// 10 ms pass (every key written with the 5 ms expiry is past its deadline), then the eviction
		// worker body runs on every member for every partition - also on a previous owner that still
		// holds the fragment
		sched.AdvanceNS(int64(10 * time.Millisecond))
		for k := range s.Exp {
			delete(s.Ref, k)
			delete(s.Exp, k)
			s.Expired[k] = true
		}
		for pass := 0; pass < 3; pass++ {
			for _, m := range s.Cl.Live() {
				for p := uint64(0); p < s.Cl.O.Partitions; p++ {
					m.DB.VerifDMap().VerifEvictAll(p)
				}
			}
		}
	case "leave":
		s.Cl.Leave(s.member(e.A))
		s.Cl.DeliverAll()
		s.Left = true
	}
	return nil
}

// reads: a Get from every live member must return the last acknowledged value / not-found.
func (s *c03Sys) reads(phase string) []clustermc.Fail {
	var fs []clustermc.Fail
	for _, k := range s.Keys {
		want := s.Ref[k]
		for _, m := range s.Cl.Live() {
			if !m.Finished || !m.DB.VerifRT().IsBootstrapped() {
				continue // a member that has not received its first routing table is not serving yet
			}
			dm, err := m.Emb.NewDMap("d")
			if err != nil {
				continue
			}
			r := simcluster.WrapDMap("", dm).Get(k)
			switch {
			case want == "" && r.Err == "":
				fs = append(fs, clustermc.Fail{Key: phase + "/deleted-key-readable", What: fmt.Sprintf("%s: key %s was deleted (or never written) but Get via %s returns %q", phase, k, m.Name, r.Val)})
			case want != "" && r.Err != "":
				fs = append(fs, clustermc.Fail{Key: phase + "/key-unreadable/" + strings.SplitN(r.Err, ":", 2)[0], What: fmt.Sprintf("%s: key %s has the acknowledged value %q but Get via %s fails with %q", phase, k, want, m.Name, r.Err)})
			case want != "" && string(r.Val) != want:
				fs = append(fs, clustermc.Fail{Key: phase + "/stale-value", What: fmt.Sprintf("%s: key %s has the acknowledged value %q but Get via %s returns %q", phase, k, want, m.Name, r.Val)})
			}
		}
	}
	return fs
}

func (s *c03Sys) Check() []clustermc.Fail {
	// (a) in the state as it is, in the middle of whatever hand-over is going on (join histories)
	var fs []clustermc.Fail
	if !s.Left {
		fs = s.reads("during-handover")
		if len(fs) > 0 {
			return fs
		}
	}
	// (b) after the cluster has stabilised (this instance is a throw-away replay)
	if s.Cl.Stabilise() < 0 {
		return []clustermc.Fail{{Key: "not-stabilising", What: "routing tables / data placement still changing after 24 rounds of push + balance"}}
	}
	fs = append(fs, s.reads("after-stabilisation")...)
	view := s.Cl.Live()[0]
	n := len(s.Cl.Live())
	wantBackups := s.P.Opts.Replicas
	if n < wantBackups {
		wantBackups = n
	}
	wantBackups--
	for _, k := range s.Keys {
		want := s.Ref[k]
		owner := s.Cl.Owner(view, "d", k)
		// the CURRENT backup owners are the last min(R,N)-1 entries of the list (earlier entries are
		// former backup owners that still hold data): those are the members that have to hold the
		// key's backup copies once the cluster has stabilised
		listed := map[string]bool{}
		bl := s.Cl.Backups(view, "d", k)
		for i, b := range bl {
			if b != nil && i >= len(bl)-wantBackups {
				listed[b.Name] = true
			}
		}
		prim, back := 0, 0
		for _, c := range s.Cl.Copies("d", k) {
			if want == "" && (s.Expired[k] || (c.TTL != 0 && c.TTL <= sched.PeekNS()/1e6)) {
				continue // the key ran out (it was not deleted): it must read not-found, which is checked above
			}
			if want == "" {
				fs = append(fs, clustermc.Fail{Key: "after-stabilisation/deleted-key-stored", What: fmt.Sprintf("key %s was deleted but member %s still stores a %s copy %q", k, c.Member, c.Kind, c.Value)})
				continue
			}
			if s.Left {
				continue // structural clauses are promised after joins only
			}
			if c.Kind == "primary" {
				prim++
				if c.Member != owner.Name {
					fs = append(fs, clustermc.Fail{Key: "after-stabilisation/primary-copy-on-non-owner", What: fmt.Sprintf("key %s: a primary copy %q is stored on %s, the partition owner is %s", k, c.Value, c.Member, owner.Name)})
				}
				if string(c.Value) != want {
					fs = append(fs, clustermc.Fail{Key: "after-stabilisation/primary-copy-stale", What: fmt.Sprintf("key %s: primary copy on %s holds %q, last acknowledged value %q", k, c.Member, c.Value, want)})
				}
			} else if listed[c.Member] && string(c.Value) == want {
				back++
			}
		}
		if want != "" && !s.Left {
			if prim != 1 {
				fs = append(fs, clustermc.Fail{Key: "after-stabilisation/primary-copy-count", What: fmt.Sprintf("key %s is stored as a primary copy %d times (must be exactly once)", k, prim)})
			}
			if s.Safe[k] && back < wantBackups {
				fs = append(fs, clustermc.Fail{Key: "after-stabilisation/backup-copies-missing", What: fmt.Sprintf("key %s (written with >= ReplicaCount members present) has %d up-to-date backup copies on the listed backup owners, min(R,N)-1 = %d", k, back, wantBackups)})
			}
		}
	}
	return fs
}

func (s *c03Sys) Canon() string {
	var b strings.Builder
	live := s.Cl.Live()
	for _, m := range live {
		fmt.Fprintf(&b, "%s%v,", m.Name[len(m.Name)-1:], m.DB.VerifRT().IsBootstrapped())
		fmt.Fprintf(&b, "q%d;", s.Cl.Pending(m))
	}
	b.WriteByte('|')
	for _, m := range live {
		t := m.DB.VerifRT().VerifTable()
		for p := uint64(0); p < s.P.Opts.Partitions; p++ {
			fmt.Fprintf(&b, "%s/%s;", namesOf(t[p].Owners), namesOf(t[p].Backups))
		}
		b.WriteByte('|')
	}
	// copies with version ranks per key
	for _, k := range s.Keys {
		cps := s.Cl.Copies("d", k)
		vals := map[string]bool{}
		for _, c := range cps {
			vals[string(c.Value)] = true
		}
		var vs []string
		for v := range vals {
			vs = append(vs, v)
		}
		sort.Slice(vs, func(i, j int) bool { return verNum(vs[i]) < verNum(vs[j]) })
		rank := map[string]int{}
		for i, v := range vs {
			rank[v] = i
		}
		cur := "x"
		if v, ok := s.Ref[k]; ok {
			cur = fmt.Sprint(rank[v])
			if _, stored := vals[v]; !stored {
				cur = "lost"
			}
		}
		fmt.Fprintf(&b, "%s=%s[", k, cur)
		for _, c := range cps {
			fmt.Fprintf(&b, "%s%s%d,", c.Member[len(c.Member)-1:], c.Kind[:1], rank[string(c.Value)])
		}
		fmt.Fprintf(&b, "]s%v", s.Safe[k])
		if _, ok := s.Exp[k]; ok {
			b.WriteString("ttl")
		}
		if s.Expired[k] {
			b.WriteString("x")
		}
		b.WriteByte(';')
	}
	fmt.Fprintf(&b, "left%v;", s.Left)
	// table counts shape what one balancer pass moves
	for _, m := range live {
		for _, f := range m.DB.VerifDMap().VerifFragments() {
			if f.Name == "dmap.d" {
				fmt.Fprintf(&b, "%s%s%dt%d,", m.Name[len(m.Name)-1:], f.Kind[:1], f.PartID, len(f.Tables))
			}
		}
	}
	return b.String()
}

func verNum(v string) int {
	n := 0
	fmt.Sscanf(v, "v%d", &n)
	return n
}

func c03Specs(tier string) []*clustermc.Spec {
	quick := tier != "thorough"
	type cf struct {
		n0, r, table int
		leaves       bool
		rr           bool
		bg           bool // a key in every one of 7 partitions, written in the initial state
		ports        []int
	}
	cfs := []cf{{1, 1, 1 << 16, false, false, false, nil}, {2, 2, 128, true, false, false, nil}, {1, 2, 128, false, false, false, nil},
		// read-repair on: a Get during a hand-over writes to the members it found stale
		{2, 2, 1 << 16, false, true, false, nil}, {1, 1, 128, false, true, false, nil},
		// seven partitions with a key in each, from one member to three: some partition moves twice
		// (first owner -> second -> third) before the first owner has handed anything over
		{1, 1, 128, false, false, true, nil},
		// member names chosen (Opts.PortOf) so that two of three partitions move to the second member at
		// the first join and on to the third member at the second join: a write on the second member in
		// between keeps it listed, the partition then has THREE listed owners (first owner still holding
		// the initial keys, second owner holding the write, third owner empty)
		{1, 1, 1 << 16, false, false, true, []int{0, 2, 4}}}
	depth, maxN := 6, 3
	if !quick {
		depth = 8
		cfs = append(cfs, cf{1, 1, 128, false, false, false, nil}, cf{2, 1, 1 << 16, false, false, false, nil}, cf{2, 2, 1 << 16, true, false, false, nil})
	}
	// three replicas: a backup partition has two current owners, a join changes the closest-3 set
	// and a backup fragment is handed to BOTH of them; explored from 3 to 4 members, less deep
	cfs = append(cfs, cf{3, 3, 128, false, false, false, nil})
	var out []*clustermc.Spec
	for _, c := range cfs {
		depth, maxN := depth, maxN
		parts := uint64(3)
		if c.r == 3 {
			// (buraksezer/consistent panics "not enough room to distribute partitions" for 3
			// partitions on 4 members: an input the library does not support, see DESIGN 14)
			depth, maxN, parts = depth-3, 4, 7
		}
		if c.bg && c.ports == nil {
			parts = 7
		}
		p := &c03Params{Name: fmt.Sprintf("N0=%d R=%d table=%d leaves=%v", c.n0, c.r, c.table, c.leaves), Depth: depth, MaxN: maxN, Leaves: c.leaves, Background: c.r == 3 || c.bg,
			Opts: simcluster.Opts{N: c.n0, Replicas: c.r, WriteQ: 1, ReadQ: 1, Partitions: parts, TableSize: c.table, ReadRepair: c.rr, PortOf: c.ports}}
		if c.ports != nil {
			p.Name += fmt.Sprintf(" names=%v", c.ports)
		}
		if c.rr {
			p.Name += " read-repair"
		}
		if c.bg {
			p.Name += " key-in-every-partition"
		}
		proto := &c03Sys{P: p}
		out = append(out, &clustermc.Spec{
			Name: p.Name, Depth: depth,
			New:      func() interface{} { return c03New(p) },
			Events:   func(s interface{}) []clustermc.Ev { return s.(*c03Sys).Events() },
			Apply:    func(s interface{}, e clustermc.Ev) []clustermc.Fail { return s.(*c03Sys).Apply(e) },
			Canon:    func(s interface{}) string { return s.(*c03Sys).Canon() },
			Check:    func(s interface{}) []clustermc.Fail { return s.(*c03Sys).Check() },
			Describe: proto.describe,
			NonTrivial: func(s interface{}) bool {
				sys := s.(*c03Sys)
				return len(sys.Cl.Live()) > sys.P.Opts.N && len(sys.Ref) > 0
			},
		})
	}
	return out
}

// c03FaultCfgs: workloads containing a join, explored with C02's fault-schedule engine: every command
// of the hand-over that follows the join (routing push, length queries, each table move) is a point
// at which its sender or its receiver may stop.
func c03FaultCfgs(tier string) []c02Cfg {
	alpha := []c02Op{{Kind: "join"}, {"put", 0, 1}, {"del", 0, 0}, {"put", 1, 0}}
	type base struct{ n, table, fill, l int }
	bases := []base{{2, 128, 3, 2}, {2, 0, 0, 2}}
	if tier == "thorough" {
		bases = []base{{2, 128, 3, 3}, {2, 0, 0, 3}, {3, 128, 3, 2}}
	}
	var out []c02Cfg
	for _, b := range bases {
		var rec func(cur []c02Op, joins int)
		rec = func(cur []c02Op, joins int) {
			if len(cur) == b.l {
				if joins > 0 {
					out = append(out, c02Cfg{N: b.n, R: 2, Ops: append([]c02Op{}, cur...), StabFaults: true, Table: b.table, Fill: b.fill})
				}
				return
			}
			for _, o := range alpha {
				j := joins
				if o.Kind == "join" {
					if joins == 1 {
						continue
					}
					j++
				}
				rec(append(cur, o), j)
			}
		}
		rec(nil, 0)
	}
	return out
}

func c03Faults(c *core.Ctx) {
	cfgs := c03FaultCfgs(c.Tier)
	var params []interface{}
	for _, cf := range cfgs {
		params = append(params, c02Job{cf})
	}
	runs, points, faulty, done := 0, 0, 0, 0
	core.RunJobsUntil("c02", params, 30*time.Minute, func(idx int, res json.RawMessage, crash string) {
		done++
		jp := params[idx].(c02Job)
		if crash != "" {
			c.Violate("C03/faults/worker-crash/"+jp.Cfg.String(), "worker failed: "+crash, jp)
			return
		}
		var r c02Res
		json.Unmarshal(res, &r)
		runs += r.Runs
		points += r.Points
		faulty += r.Runs - r.ByDev[0]
		for _, v := range r.Viol {
			c.Violate("C03/faults/"+v.Key, fmt.Sprintf("%s; faults: %s => %s", jp.Cfg, strings.Join(v.Faults, " ; "), v.What),
				map[string]interface{}{"cfg": jp.Cfg, "choices": v.Prefix})
		}
	}, c.TimeUp)
	c.Cov["fault_part"] = map[string]interface{}{
		"what":                     "workloads of Put / Delete and one join (2 members, ReplicaCount 2, 128-byte tables with four keys in one partition and 64 KiB tables); at every command delivered between members during the operations and during the hand-over that follows the join (routing push, length queries, every single table move) the sender or the receiver stops, before or after the command is handled, detected at once or only at the end; also graceful leaves and stops in the gaps; one stop per run; oracle as in C02 (last acknowledged value on every survivor after re-stabilisation, later Put / Delete / Put visible everywhere)",
		"workloads":                len(cfgs),
		"runs":                     runs,
		"runs_with_a_stop":         faulty,
		"decision_points_answered": points,
		"complete":                 done == len(params),
	}
	if done < len(params) {
		c.Cov["exhaustive"] = false
	}
}

func init() {
	clustermc.Specs["C03"] = c03Specs
	core.Register(&core.Check{ID: "C03", Level: "model_checking", Run: func(c *core.Ctx) {
		c.Cov["rule"] = "BFS over {Put / Delete of 3 keys (two share a partition) through the oldest or the youngest member, join (membership events delivered), routing push, one balancer pass on member i (one table per fragment), compaction, janitor, graceful leave (offered only while every live key has its backup copies)} from 1-2 members up to 3, replica counts 1-2, 64 KiB and 128-byte tables; in every state a Get of every key from every serving member must return the last acknowledged value or not-found, then the replay is stabilised and additionally every live key must be stored exactly once as a primary copy on the partition owner with its backup copies, and deleted keys nowhere; non-trivial = distinct states with more members than initially and at least one live key"
		clustermc.RunFamily(c, "C03")
		c03Faults(c)
		c.Cov["traces_validated_against_impl"] = 0
		c.Assumef("membership comes from the fake discovery layer; a crash of the sender or the receiver of a fragment move is a stop of that member before or after one of the commands of the hand-over (command granularity), explored with ReplicaCount 2 so that the statement's premise (keys written while ReplicaCount members were present) covers the loss")
	}})
}
