package checks

import (
	"context"
	"encoding/json"
	"fmt"
	"regexp"
	"sort"
	"strings"
	"time"

	olric "github.com/olric-data/olric"
	"github.com/olric-data/olric/internal/protocol"
	"github.com/olric-data/olric/internal/verif/clustermc"
	"github.com/olric-data/olric/internal/verif/core"
	"github.com/olric-data/olric/internal/verif/sched"
	"github.com/olric-data/olric/internal/verif/simcluster"
	"github.com/olric-data/olric/internal/verif/simnet"
	"github.com/redis/go-redis/v9"
	"github.com/tidwall/redcon"
)

// C12, cluster level: the client iterator (ClusterDMap.Scan over simnet) and raw DM.SCAN cursor
// loops per partition and owner, on stable clusters (BFS over put/delete/compact histories) and on
// a partition that currently has two primary owners (a join whose balancing has not finished).

var c12Counts = []int{1, 2, 0} // 0 = default page size
// "0$" is unanchored and starts with a literal: it matches keys that END in 0 (a0), not keys that
// start with it
var c12Patterns = []string{"", "^a", "^zz", "0$"}

// scanAll runs every (COUNT, MATCH) combination through the client iterator and through raw
// DM.SCAN loops; present is the set of keys that must be reported.
func c12ScanAll(cl *simcluster.Cluster, dmName string, present map[string]bool, sig string) []clustermc.Fail {
	var fs []clustermc.Fail
	add := func(k, f string, a ...interface{}) {
		fs = append(fs, clustermc.Fail{Key: k, What: fmt.Sprintf(f, a...)})
	}
	cc, err := cl.ClusterClient(cl.Live()[len(cl.Live())-1])
	if err != nil {
		add("client", "cluster client: %v", err)
		return fs
	}
	defer cc.Close(context.Background())
	dm, _ := cc.NewDMap(dmName)
	for _, count := range c12Counts {
		for _, pat := range c12Patterns {
			var re *regexp.Regexp
			if pat != "" {
				re = regexp.MustCompile(pat)
			}
			want := map[string]bool{}
			for k := range present {
				if re == nil || re.MatchString(k) {
					want[k] = true
				}
			}
			var opts []olric.ScanOption
			if count != 0 {
				opts = append(opts, olric.Count(count))
			}
			if pat != "" {
				opts = append(opts, olric.Match(pat))
			}
			csig0 := fmt.Sprintf("count=%d/match=%q/%s", count, pat, sig)
			horizon := 4*(len(present)+1)*len(cl.Live()) + int(cl.O.Partitions)*4 + 16
			// --- client iterators: exactly once. The cluster client's iterator and the embedded
			// client's iterator (which scans the partitions its member owns in process) ---
			for _, kind := range []string{"iterator", "embedded-iterator"} {
				csig := csig0
				var it olric.Iterator
				var err error
				if kind == "iterator" {
					it, err = dm.Scan(context.Background(), opts...)
				} else {
					csig = "embedded/" + csig0
					em := cl.Live()[0]
					edm, eerr := em.Emb.NewDMap(dmName)
					if eerr != nil {
						add("iterator/open/"+csig, "NewDMap: %v", eerr)
						continue
					}
					it, err = olric.VerifEmbeddedScan(context.Background(), edm.(*olric.EmbeddedDMap), cc, opts...)
				}
				if err != nil {
					add("iterator/open/"+csig, "Scan: %v", err)
					continue
				}
				got := map[string]int{}
				// The iteration runs under a wall-clock watchdog that is only used to NAME a hang: a
				// single Next() call that never returns cannot be interrupted from inside. Closing the
				// iterator cancels its context, which ends the loop inside Next().
				done := make(chan string, 1)
				go func() {
					n := 0
					for it.Next() {
						got[it.Key()]++
						n++
						if n > horizon {
							done <- fmt.Sprintf("the iterator yielded %d keys for %d present keys and is still going", n, len(present))
							return
						}
					}
					done <- ""
				}()
				hung := false
				select {
				case msg := <-done:
					if msg != "" {
						add("iterator/not-terminating/"+csig, "%s", msg)
					}
					it.Close()
				case <-time.After(3 * time.Second):
					hung = true
					it.Close()
					select {
					case <-done:
					case <-time.After(5 * time.Second):
						core.PoisonWorker() // the goroutine is still spinning: this process must not be reused
					}
					add("iterator/next-never-returns/"+csig, "a Next() call of the client iterator did not return within 3s of wall-clock time (it normally takes microseconds); keys yielded before: %v", keysOf(got))
				}
				if hung {
					continue
				}
				for k, c := range got {
					if !want[k] {
						add("iterator/unexpected-key/"+csig, "the iterator yields %q which is absent, deleted or does not match", k)
					} else if c > 1 {
						add("iterator/duplicate/"+csig, "the iterator yields %q %d times", k, c)
					}
				}
				for k := range want {
					if got[k] == 0 {
						add("iterator/missed/"+csig, "the iterator misses present key %q (yielded %v)", k, keysOf(got))
					}
				}
			}
			csig := csig0
			// --- raw DM.SCAN per partition and primary owner: at least once, nothing absent ---
			raw := map[string]int{}
			view := cl.Live()[0]
			tab := view.DB.VerifRT().VerifTable()
			for p := uint64(0); p < cl.O.Partitions; p++ {
				for _, o := range tab[p].Owners {
					m := cl.ByName(o.Name)
					if m == nil || !m.Alive {
						continue
					}
					cursor := uint64(0)
					for calls := 0; ; calls++ {
						if calls > horizon {
							add("rawscan/not-terminating/"+csig, "DM.SCAN on partition %d of %s still returns a non-zero cursor after %d calls", p, o.Name, calls)
							break
						}
						s := protocol.NewScan(p, dmName, cursor)
						if count != 0 {
							s.SetCount(count)
						}
						if pat != "" {
							s.SetMatch(pat)
						}
						keys, next, err := rawScan(m, s.Command(context.Background()))
						if err != nil {
							add("rawscan/error/"+csig, "DM.SCAN on partition %d of %s: %v", p, o.Name, err)
							break
						}
						for _, k := range keys {
							raw[k]++
						}
						cursor = next
						if cursor == 0 {
							break
						}
					}
				}
			}
			for k := range raw {
				if !want[k] {
					add("rawscan/unexpected-key/"+csig, "raw DM.SCAN yields %q which is absent, deleted or does not match", k)
				}
			}
			for k := range want {
				if raw[k] == 0 {
					add("rawscan/missed/"+csig, "raw DM.SCAN over every partition and owner misses present key %q", k)
				}
			}
		}
	}
	return fs
}

func keysOf(m map[string]int) []string {
	var out []string
	for k := range m {
		out = append(out, k)
	}
	sort.Strings(out)
	return out
}

// rawScan sends one DM.SCAN command straight to a member's command multiplexer.
func rawScan(m *simcluster.Member, cmd *redis.ScanCmd) ([]string, uint64, error) {
	var rc redcon.Command
	for _, a := range cmd.Args() {
		rc.Args = append(rc.Args, []byte(fmt.Sprint(a)))
	}
	conn := simnet.NewSrvConn("raw-scan")
	m.DB.VerifServe(conn, rc)
	reply := conn.Bytes()
	// reply: *2 \r\n $n cursor \r\n *k ... keys
	n, resp := redcon.ReadNextRESP(reply)
	if n == 0 {
		return nil, 0, fmt.Errorf("unparsable reply %q", reply)
	}
	if resp.Type == redcon.Error {
		return nil, 0, fmt.Errorf("%s", resp.Data)
	}
	var cursor uint64
	var keys []string
	i := 0
	resp.ForEach(func(r redcon.RESP) bool {
		if i == 0 {
			fmt.Sscan(string(r.Data), &cursor)
		} else {
			r.ForEach(func(k redcon.RESP) bool { keys = append(keys, string(k.Data)); return true })
		}
		i++
		return true
	})
	return keys, cursor, nil
}

// ---- stable clusters: BFS ----------------------------------------------------------------------

type c12Sys struct {
	Cl      *simcluster.Cluster
	KV      simcluster.KV
	Keys    []string
	Present map[string]bool
	Name    string
}

func c12Specs(tier string) []*clustermc.Spec {
	quick := tier != "thorough"
	type cf struct{ n, r int }
	cfs := []cf{{1, 1}, {2, 2}}
	depth := 3
	if !quick {
		cfs = append(cfs, cf{2, 1}, cf{3, 2}, cf{3, 1})
		depth = 4
	}
	var out []*clustermc.Spec
	for _, c := range cfs {
		c := c
		name := fmt.Sprintf("stable N=%d R=%d table=128", c.n, c.r)
		newSys := func() interface{} {
			sched.ResetClock()
			cl := simcluster.New(simcluster.Opts{N: c.n, Replicas: c.r, WriteQ: 1, ReadQ: 1, Partitions: 3, TableSize: 128})
			s := &c12Sys{Cl: cl, Present: map[string]bool{}, Name: name}
			// two keys share a partition (so that it spans tables), names give MATCH something to do
			p0 := cl.PartID("d", "a0")
			s.Keys = []string{"a0"}
			s.Keys = append(s.Keys, cl.FindKey("a", func(k string) bool { return k != "a0" && cl.PartID("d", k) == p0 }))
			s.Keys = append(s.Keys, cl.FindKey("b", func(k string) bool { return cl.PartID("d", k) == p0 }))
			s.Keys = append(s.Keys, cl.FindKey("b", func(k string) bool { return cl.PartID("d", k) != p0 }))
			kv, err := cl.Entry("EO", "d", s.Keys[0])
			if err != nil {
				panic(err)
			}
			s.KV = kv
			return s
		}
		var alpha []clustermc.Ev
		for i := 0; i < 4; i++ {
			alpha = append(alpha, clustermc.Ev{K: "put", A: i}, clustermc.Ev{K: "del", A: i})
		}
		alpha = append(alpha, clustermc.Ev{K: "compact"})
		plain := len(alpha)
		// a client iteration (COUNT=1) during which plain operation #A lands after the B-th key was
		// yielded; the state it leaves is that of the plain operation
		for a := 0; a < plain; a++ {
			for pos := 0; pos <= 2; pos++ {
				alpha = append(alpha, clustermc.Ev{K: "iterate-with", A: a, B: pos})
			}
		}
		var apply func(si interface{}, e clustermc.Ev) []clustermc.Fail
		apply = func(si interface{}, e clustermc.Ev) []clustermc.Fail {
			s := si.(*c12Sys)
			if e.K == "plain" {
				return c12Plain(s, alpha[e.A])
			}
			if e.K != "iterate-with" {
				return nil
			}
			op := alpha[e.A]
			before := map[string]bool{}
			for k := range s.Present {
				before[k] = true
			}
			cc, err := s.Cl.ClusterClient(s.Cl.Live()[len(s.Cl.Live())-1])
			if err != nil {
				return []clustermc.Fail{{Key: "client", What: err.Error()}}
			}
			defer cc.Close(context.Background())
			dm, _ := cc.NewDMap("d")
			it, err := dm.Scan(context.Background(), olric.Count(1))
			if err != nil {
				return []clustermc.Fail{{Key: "iterator/open", What: err.Error()}}
			}
			defer it.Close()
			got := map[string]int{}
			n := 0
			var fs []clustermc.Fail
			applied := false
			land := func() {
				if !applied {
					applied = true
					fs = append(fs, apply(si, clustermc.Ev{K: "plain", A: e.A})...)
				}
			}
			if e.B == 0 {
				land()
			}
			for it.Next() {
				got[it.Key()]++
				n++
				if n == e.B {
					land()
				}
				if n > 64 {
					fs = append(fs, clustermc.Fail{Key: "iterator-under-churn/not-terminating", What: fmt.Sprintf("the iterator yielded %d keys and is still going (operation %s after key %d)", n, op.K, e.B)})
					break
				}
			}
			land()
			for k := range before {
				if s.Present[k] && got[k] != 1 {
					fs = append(fs, clustermc.Fail{Key: fmt.Sprintf("iterator-under-churn/stable-key-yielded-%d-times/op=%s", got[k], op.K),
						What: fmt.Sprintf("client iterator COUNT=1 with %s(key#%d) landing after %d yielded keys: key %q was present before and after the iteration and was yielded %d times (yielded: %v)", op.K, op.A, e.B, k, got[k], keysOf(got))})
				}
			}
			for k := range got {
				if !before[k] && !s.Present[k] {
					fs = append(fs, clustermc.Fail{Key: "iterator-under-churn/ghost", What: fmt.Sprintf("the iterator yields %q which was never present", k)})
				}
			}
			return fs
		}
		out = append(out, &clustermc.Spec{
			Name: name, Depth: depth, New: newSys,
			Events: func(s interface{}) []clustermc.Ev { return alpha },
			Apply: func(si interface{}, e clustermc.Ev) []clustermc.Fail {
				s := si.(*c12Sys)
				if e.K == "iterate-with" {
					return apply(si, e)
				}
				switch e.K {
				case "put":
					if r := s.KV.Put(s.Keys[e.A], []byte("0123456789-0123456789"), simcluster.PutOpt{}); r.Err != "" {
						return []clustermc.Fail{{Key: "put-failed", What: r.Err}}
					}
					s.Present[s.Keys[e.A]] = true
				case "del":
					if r := s.KV.Del(s.Keys[e.A]); r.Err != "" {
						return []clustermc.Fail{{Key: "del-failed", What: r.Err}}
					}
					delete(s.Present, s.Keys[e.A])
				case "compact":
					for _, m := range s.Cl.Live() {
						for p := uint64(0); p < s.Cl.O.Partitions; p++ {
							m.DB.VerifDMap().VerifCompactPartition(p)
						}
					}
				}
				return nil
			},
			Canon: func(si interface{}) string {
				s := si.(*c12Sys)
				var b strings.Builder
				for _, m := range s.Cl.Live() {
					for _, f := range m.DB.VerifDMap().VerifFragments() {
						fmt.Fprintf(&b, "%s%s%d[", m.Name[len(m.Name)-1:], f.Kind[:1], f.PartID)
						for _, t := range f.Tables {
							fmt.Fprintf(&b, "(s%d o%d g%d:", t.State, t.Offset, t.Garbage)
							for _, h := range t.HKeys {
								fmt.Fprintf(&b, "%d,", h[1])
							}
							b.WriteByte(')')
						}
						for _, e := range f.Entries {
							b.WriteString(e.Key + ",")
						}
						b.WriteByte(']')
					}
				}
				return b.String()
			},
			Check: func(si interface{}) []clustermc.Fail {
				s := si.(*c12Sys)
				return c12ScanAll(s.Cl, "d", s.Present, "stable")
			},
			Describe: func(e clustermc.Ev) string {
				if e.K == "compact" {
					return "compact"
				}
				if e.K == "iterate-with" {
					o := alpha[e.A]
					return fmt.Sprintf("iterate(COUNT=1) with %s(key#%d) landing after %d keys", o.K, o.A, e.B)
				}
				return fmt.Sprintf("%s(key#%d)", e.K, e.A)
			},
			NonTrivial: func(si interface{}) bool { return len(si.(*c12Sys).Present) >= 2 },
		})
	}
	return out
}

func c12Plain(s *c12Sys, e clustermc.Ev) []clustermc.Fail {
	switch e.K {
	case "put":
		if r := s.KV.Put(s.Keys[e.A], []byte("0123456789-0123456789"), simcluster.PutOpt{}); r.Err != "" {
			return []clustermc.Fail{{Key: "put-failed", What: r.Err}}
		}
		s.Present[s.Keys[e.A]] = true
	case "del":
		if r := s.KV.Del(s.Keys[e.A]); r.Err != "" {
			return []clustermc.Fail{{Key: "del-failed", What: r.Err}}
		}
		delete(s.Present, s.Keys[e.A])
	case "compact":
		for _, m := range s.Cl.Live() {
			for p := uint64(0); p < s.Cl.O.Partitions; p++ {
				m.DB.VerifDMap().VerifCompactPartition(p)
			}
		}
	}
	return nil
}

// ---- a partition with two primary owners --------------------------------------------------------

type c12FragCase struct {
	Before  int `json:"before"`  // bitmask of keys put before the join (they stay on the previous owner)
	After   int `json:"after"`   // bitmask of keys put after the join (they land on the new owner)
	Deleted int `json:"deleted"` // bitmask of keys deleted at the end
	Balance int `json:"balance"` // balancer passes run before scanning (each moves one table per fragment)
	R       int `json:"r"`
}

func (c c12FragCase) String() string {
	return fmt.Sprintf("keys-before-join=%04b keys-after-join=%04b deleted=%04b balancer-passes=%d R=%d", c.Before, c.After, c.Deleted, c.Balance, c.R)
}

func c12FragCases(tier string) []c12FragCase {
	var out []c12FragCase
	rs := []int{1}
	bal := []int{0, 1}
	if tier == "thorough" {
		rs = []int{1, 2}
		bal = []int{0, 1, 2}
	}
	for _, r := range rs {
		for b := 0; b < 16; b++ {
			for a := 0; a < 16; a++ {
				if a == 0 && b == 0 {
					continue
				}
				for _, bp := range bal {
					out = append(out, c12FragCase{Before: b, After: a, Balance: bp, R: r})
					if tier == "thorough" && a|b == 15 {
						out = append(out, c12FragCase{Before: b, After: a, Deleted: 5, Balance: bp, R: r})
					}
				}
			}
		}
	}
	return out
}

var c12MovingKeys []string // cached: four keys of a partition that moves to the third member

func c12FindMovingKeys(r int) []string {
	if c12MovingKeys != nil {
		return c12MovingKeys
	}
	sched.ResetClock()
	cl := simcluster.New(simcluster.Opts{N: 2, Replicas: r, Partitions: 7, TableSize: 128})
	before := map[uint64]string{}
	for p := uint64(0); p < 7; p++ {
		o := cl.Members[0].DB.VerifRT().VerifTable()[p].Owners
		before[p] = o[len(o)-1].Name
	}
	j, err := cl.StartMember(2)
	if err != nil {
		panic(err)
	}
	cl.DeliverAll()
	cl.Push()
	var part uint64 = 99
	for p := uint64(0); p < 7; p++ {
		o := cl.Members[0].DB.VerifRT().VerifTable()[p].Owners
		if o[len(o)-1].Name == j.Name && before[p] != j.Name {
			part = p
			break
		}
	}
	if part == 99 {
		panic("c12: no partition moves to the joining member")
	}
	var keys []string
	for _, prefix := range []string{"a", "a", "b", "b"} {
		keys = append(keys, cl.FindKey(prefix, func(k string) bool {
			for _, x := range keys {
				if x == k {
					return false
				}
			}
			return cl.PartID("d", k) == part
		}))
	}
	c12MovingKeys = keys
	return keys
}

func c12RunFrag(cs c12FragCase) []clustermc.Fail {
	keys := c12FindMovingKeys(1)
	sched.ResetClock()
	cl := simcluster.New(simcluster.Opts{N: 2, Replicas: cs.R, WriteQ: 1, ReadQ: 1, Partitions: 7, TableSize: 128})
	present := map[string]bool{}
	put := func(mask int) string {
		for i, k := range keys {
			if mask&(1<<uint(i)) != 0 {
				kv, err := cl.Entry("CC", "d", k)
				if err != nil {
					return err.Error()
				}
				if r := kv.Put(k, []byte("0123456789-0123456789-0123456789"), simcluster.PutOpt{}); r.Err != "" {
					return r.Err
				}
				present[k] = true
			}
		}
		return ""
	}
	if e := put(cs.Before); e != "" {
		return []clustermc.Fail{{Key: "setup", What: "put before join: " + e}}
	}
	if _, err := cl.StartMember(2); err != nil {
		return []clustermc.Fail{{Key: "setup", What: err.Error()}}
	}
	cl.DeliverAll()
	cl.Push()
	if e := put(cs.After); e != "" {
		return []clustermc.Fail{{Key: "setup", What: "put after join: " + e}}
	}
	for i := 0; i < cs.Balance; i++ {
		for _, m := range cl.Live() {
			cl.Balance(m)
		}
		cl.Push()
	}
	for i, k := range keys {
		if cs.Deleted&(1<<uint(i)) != 0 && present[k] {
			kv, _ := cl.Entry("CC", "d", k)
			if r := kv.Del(k); r.Err != "" {
				return []clustermc.Fail{{Key: "setup", What: "delete: " + r.Err}}
			}
			delete(present, k)
		}
	}
	owners := len(cl.Live()[0].DB.VerifRT().VerifTable()[cl.PartID("d", keys[0])].Owners)
	return c12ScanAll(cl, "d", present, fmt.Sprintf("owners=%d", owners))
}

type c12Job struct {
	Cases []c12FragCase `json:"cases"`
}
type c12Res struct{ Fails [][]clustermc.Fail }

func init() {
	clustermc.Specs["C12"] = c12Specs
	core.RegisterJob("c12frag", func(raw json.RawMessage) (interface{}, error) {
		var p c12Job
		if err := json.Unmarshal(raw, &p); err != nil {
			return nil, err
		}
		var r c12Res
		for _, cs := range p.Cases {
			r.Fails = append(r.Fails, c12RunFrag(cs))
		}
		return r, nil
	})
}

// c12Cluster runs the cluster-level part and folds it into the context of check C12.
func c12Cluster(c *core.Ctx) {
	clustermc.RunFamily(c, "C12")
	cases := c12FragCases(c.Tier)
	var params []interface{}
	for i := 0; i < len(cases); i += 16 {
		j := i + 16
		if j > len(cases) {
			j = len(cases)
		}
		params = append(params, c12Job{cases[i:j]})
	}
	twoOwners := 0
	core.RunJobs("c12frag", params, 10*time.Minute, func(idx int, res json.RawMessage, crash string) {
		jp := params[idx].(c12Job)
		if crash != "" {
			c.Violate("C12/fragmented/worker-crash", "worker failed: "+crash+" on "+jp.Cases[0].String(), jp.Cases[0])
			return
		}
		var r c12Res
		json.Unmarshal(res, &r)
		for i, fl := range r.Fails {
			if jp.Cases[i].Before != 0 {
				twoOwners++
			}
			for _, f := range fl {
				if f.Key == "setup" {
					c.Violate("C12/harness-setup", "scenario could not be built: "+f.What+" ("+jp.Cases[i].String()+")", jp.Cases[i])
					continue
				}
				c.Violate("C12/fragmented/"+f.Key, jp.Cases[i].String()+": "+f.What, jp.Cases[i])
			}
		}
	})
	c.Sample("fragmented partition: " + cases[len(cases)/3].String())
	c.Cov["fragmented_partition_cases"] = len(cases)
	c.Cov["cases_with_two_primary_owners"] = twoOwners
	if t, ok := c.Cov["transitions"].(int); ok {
		c.Cov["transitions"] = t + len(cases)
	}
	if t, ok := c.Cov["states"].(int); ok {
		c.Cov["states"] = t + len(cases)
	}
}
