package checks

import (
	"encoding/json"
	"fmt"
	"sort"
	"strings"
	"time"

	"github.com/olric-data/olric/internal/verif/core"
	"github.com/olric-data/olric/internal/verif/sched"
	"github.com/olric-data/olric/internal/verif/simcluster"
	"github.com/olric-data/olric/internal/verif/simnet"
)

// C02: acknowledged writes survive the loss of up to R-1 members.
//
// Deviation-bounded exploration of fault schedules: a run executes a small workload of Put / Delete
// on a fresh simulated cluster of real members. Every instant at which a member can stop is a
// decision point: the gaps before / between / after the operations (graceful leave, abrupt stop
// that is detected at once, abrupt stop that stays undetected until the end) and every command
// delivery between members during an operation (caller or callee dies before or after the command
// is handled; detected right after the operation or only at the end). The default answer at every
// point is "nothing fails"; the explorer enumerates every vector with at most R-1 deviations.

type c02Op struct {
	Kind string `json:"kind"` // put | del
	Key  int    `json:"key"`
	Via  int    `json:"via"` // 0: oldest live member, 1: youngest live member
}

func (o c02Op) String() string {
	if o.Kind == "join" {
		return "join(new member)"
	}
	return fmt.Sprintf("%s(k%d via %s)", o.Kind, o.Key, []string{"oldest", "youngest"}[o.Via])
}

type c02Cfg struct {
	N          int     `json:"n"`
	R          int     `json:"r"`
	RR         bool    `json:"read_repair"`
	Ops        []c02Op `json:"ops"`
	StabFaults bool    `json:"stab_faults"`     // members may also stop during the re-stabilisation that follows an earlier stop
	Table      int     `json:"table,omitempty"` // storage table size (0: 64 KiB); 128 makes fragments span several tables
	Fill       int     `json:"fill,omitempty"`  // extra keys written into k0's partition at the start
}

func (c c02Cfg) String() string {
	var ops []string
	for _, o := range c.Ops {
		ops = append(ops, o.String())
	}
	t := ""
	if c.Table != 0 {
		t = fmt.Sprintf(" table=%d extra-keys=%d", c.Table, c.Fill)
	}
	return fmt.Sprintf("N=%d R=%d read-repair=%v%s workload=[%s]", c.N, c.R, c.RR, t, strings.Join(ops, " ; "))
}

type c02Point struct {
	N    int    // number of answers at this point (0 = default)
	Ch   int    // answer taken
	Desc string // description of the answer taken when it is a deviation
}

type c02Rec struct {
	Val        string // "" = delete
	Acked      bool
	FailsAtAck int
	Desc       string
}

type c02Run struct {
	cfg     c02Cfg
	cl      *simcluster.Cluster
	prefix  []int
	points  []c02Point
	fails   int // members stopped so far
	latent  bool
	soon    bool // an abrupt stop happened during the current operation and is to be detected after it
	keys    []string
	hist    map[string][]c02Rec
	classes []string
	out     []c05Fail
	opSeq   int
	snaps   []c02Snap
}

// c02Snap: where the copies of every key sit right after a re-stabilisation in the middle of the
// workload (used to attribute a later loss to the documented co-location defect, see DESIGN 7.2).
type c02Snap struct {
	holders map[string][]int // key -> members holding a copy
	coloc   map[string]bool  // key -> some member holds the primary copy and a replica copy of the key
	live    int
	first   bool // taken at the instant of the first stop of the run (the cluster was in the middle of a hand-over)
}

func (r *c02Run) snapshot() {
	sn := c02Snap{holders: map[string][]int{}, coloc: map[string]bool{}, live: len(r.live()), first: r.fails == 0}
	want := map[string]bool{}
	for _, k := range r.keys {
		want[k] = true
	}
	kinds := map[string]map[int]map[string]bool{} // key -> member -> kinds of copies
	for _, m := range r.cl.Live() {
		for _, f := range m.DB.VerifDMap().VerifFragments() {
			if f.Name != "dmap.d" {
				continue
			}
			for _, e := range f.Entries {
				if !want[e.Key] {
					continue
				}
				if kinds[e.Key] == nil {
					kinds[e.Key] = map[int]map[string]bool{}
				}
				if kinds[e.Key][m.Idx] == nil {
					kinds[e.Key][m.Idx] = map[string]bool{}
					sn.holders[e.Key] = append(sn.holders[e.Key], m.Idx)
				}
				kinds[e.Key][m.Idx][f.Kind] = true
			}
		}
	}
	for k, byMember := range kinds {
		for _, ks := range byMember {
			if len(ks) > 1 {
				sn.coloc[k] = true
			}
		}
	}
	r.snaps = append(r.snaps, sn)
}

// explainedByColocation: at some earlier re-stabilisation the key was held by fewer members than
// min(R, live), in a co-located layout, and every one of those holders has stopped since.
func (r *c02Run) explainedByColocation(key string) string {
	for _, sn := range r.snaps {
		h := sn.holders[key]
		min := r.cfg.R
		if sn.live < min {
			min = sn.live
		}
		if !sn.coloc[key] || len(h) == 0 || len(h) >= min {
			continue
		}
		allGone := true
		for _, idx := range h {
			for _, m := range r.live() {
				if m.Idx == idx {
					allGone = false
				}
			}
		}
		if allGone {
			if sn.first {
				return "during-handover"
			}
			return "after-rebalance"
		}
	}
	return ""
}

func (r *c02Run) choose(n int, desc func(alt int) string) int {
	idx := len(r.points)
	ch := 0
	if idx < len(r.prefix) {
		ch = r.prefix[idx]
		if ch >= n {
			panic(fmt.Sprintf("c02: replay divergence at point %d: answer %d of %d", idx, ch, n))
		}
	}
	d := ""
	if ch != 0 {
		d = desc(ch)
	}
	r.points = append(r.points, c02Point{N: n, Ch: ch, Desc: d})
	return ch
}

func (r *c02Run) budget() bool { return r.fails < r.cfg.R-1 }

func (r *c02Run) live() []*simcluster.Member {
	l := r.cl.Live()
	sort.SliceStable(l, func(i, j int) bool { return l[i].Idx < l[j].Idx })
	return l
}

func (r *c02Run) failf(key, f string, a ...interface{}) {
	r.out = append(r.out, c05Fail{Key: key, What: fmt.Sprintf(f, a...)})
}

// restabilise: detection of every stopped member, then events, routing pushes and balancer passes
// until nothing moves. Members may stop during it when the configuration says so.
func (r *c02Run) restabilise(withFaults bool) {
	if withFaults && r.cfg.StabFaults {
		r.arm("re-stabilisation")
	}
	r.cl.DetectAll()
	rounds := r.cl.Stabilise()
	simnet.N.Decide = nil
	if r.soon { // somebody stopped during this stabilisation
		r.soon = false
		r.cl.DetectAll()
		rounds = r.cl.Stabilise()
	}
	if rounds < 0 {
		r.failf("no-stabilisation", "routing and placement keep changing after 24 push/balance rounds")
	}
	if withFaults {
		r.snapshot()
	}
}

// arm installs the fault decision for every command delivered between members.
func (r *c02Run) arm(during string) {
	simnet.N.Decide = func(rpc *simnet.RPC) simnet.Fault {
		if !r.budget() {
			return simnet.Deliver
		}
		type alt struct {
			f      simnet.Fault
			latent bool
		}
		var alts []alt
		from, to := r.cl.ByName(rpc.From), r.cl.ByName(rpc.To)
		if to != nil && to.Alive {
			for _, f := range []simnet.Fault{simnet.KillCalleeFirst, simnet.KillCalleeAfter} {
				alts = append(alts, alt{f, false}, alt{f, true})
			}
		}
		if from != nil && from.Alive {
			for _, f := range []simnet.Fault{simnet.KillCallerFirst, simnet.KillCallerAfter} {
				alts = append(alts, alt{f, false}, alt{f, true})
			}
		}
		if len(alts) == 0 {
			return simnet.Deliver
		}
		desc := func(a int) string {
			x := alts[a-1]
			who := rpc.To
			if x.f == simnet.KillCallerFirst || x.f == simnet.KillCallerAfter {
				who = rpc.From
			}
			det := "detected right afterwards"
			if x.latent {
				det = "not detected before the end of the workload"
			}
			return fmt.Sprintf("during %s, at command %s from %s to %s: %s (%s stops abruptly, %s)", during, rpc.Cmd, r.short(rpc.From), r.short(rpc.To), simnet.FaultNames[x.f], r.short(who), det)
		}
		ch := r.choose(1+len(alts), desc)
		if ch == 0 {
			return simnet.Deliver
		}
		x := alts[ch-1]
		if c02Trace {
			r.trace("at the instant of the fault: " + desc(ch))
		}
		r.snapshot() // where the copies sit at the instant of the stop
		r.fails++
		r.classes = append(r.classes, fmt.Sprintf("%s@%s", simnet.FaultNames[x.f], rpc.Cmd))
		if x.latent {
			r.latent = true
		} else {
			r.soon = true
		}
		return x.f
	}
}

func (r *c02Run) short(name string) string {
	if m := r.cl.ByName(name); m != nil {
		return fmt.Sprintf("member%d", m.Idx)
	}
	return name
}

// gap: a member may leave or stop between two operations.
func (r *c02Run) gap(where string) {
	for r.budget() {
		live := r.live()
		if len(live) <= 1 {
			return
		}
		kinds := []string{"leaves gracefully", "stops abruptly (detected at once)", "stops abruptly (not detected before the end of the workload)"}
		ch := r.choose(1+3*len(live), func(a int) string {
			return fmt.Sprintf("%s: member%d %s", where, live[(a-1)/3].Idx, kinds[(a-1)%3])
		})
		if ch == 0 {
			return
		}
		m, k := live[(ch-1)/3], (ch-1)%3
		r.snapshot()
		r.fails++
		switch k {
		case 0:
			r.classes = append(r.classes, "leave")
			r.cl.Leave(m)
			r.restabilise(true)
			r.trace(fmt.Sprintf("member%d left", m.Idx))
		case 1:
			r.classes = append(r.classes, "crash")
			r.cl.Crash(m)
			r.restabilise(true)
			r.trace(fmt.Sprintf("member%d crashed and detected", m.Idx))
		case 2:
			r.classes = append(r.classes, "crash-undetected")
			r.cl.Crash(m)
			r.latent = true
		}
	}
}

func (r *c02Run) via(v int) *simcluster.Member {
	live := r.live()
	if v == 0 {
		return live[0]
	}
	return live[len(live)-1]
}

// kv opens the DMap on m; a member that cannot serve (not bootstrapped: it joined while the
// coordinator was gone) yields a client whose operations fail.
func (r *c02Run) kv(m *simcluster.Member) simcluster.KV {
	dm, err := m.Emb.NewDMap("d")
	if err != nil {
		return failingKV{simcluster.ErrClass(err)}
	}
	return simcluster.WrapDMap(fmt.Sprintf("member%d", m.Idx), dm)
}

type failingKV struct{ err string }

func (f failingKV) res() simcluster.Res { return simcluster.Res{Err: "cannot-open-dmap:" + f.err} }

func (f failingKV) Label() string                                            { return "failing" }
func (f failingKV) Put(string, []byte, simcluster.PutOpt) simcluster.Res     { return f.res() }
func (f failingKV) Get(string) simcluster.Res                                { return f.res() }
func (f failingKV) Del(...string) simcluster.Res                             { return f.res() }
func (f failingKV) Incr(string, int) simcluster.Res                          { return f.res() }
func (f failingKV) Decr(string, int) simcluster.Res                          { return f.res() }
func (f failingKV) IncrByFloat(string, float64) simcluster.Res               { return f.res() }
func (f failingKV) GetPut(string, []byte) simcluster.Res                     { return f.res() }
func (f failingKV) Expire(string, time.Duration) simcluster.Res              { return f.res() }
func (f failingKV) Lock(string, time.Duration, time.Duration) simcluster.Res { return f.res() }
func (f failingKV) Unlock(string, []byte) simcluster.Res                     { return f.res() }
func (f failingKV) Lease(string, []byte, time.Duration) simcluster.Res       { return f.res() }
func (f failingKV) Destroy() simcluster.Res                                  { return f.res() }

func (r *c02Run) doOp(o c02Op) {
	if o.Kind == "join" {
		idx := 0
		for _, m := range r.cl.Members {
			if m.Idx >= idx {
				idx = m.Idx + 1
			}
		}
		if _, err := r.cl.StartMember(idx); err != nil {
			r.failf("join-failed", "a new member could not join: %v", err)
			return
		}
		// the hand-over (routing pushes, one table move after the other, pruning) with a fault
		// decision at every command delivered between members
		r.restabilise(true)
		return
	}
	m := r.via(o.Via)
	key := r.keys[o.Key]
	r.opSeq++
	val := ""
	if o.Kind == "put" {
		val = fmt.Sprintf("v%d", r.opSeq)
	}
	kv := r.kv(m)
	r.arm(o.String())
	var res simcluster.Res
	if o.Kind == "put" {
		res = kv.Put(key, []byte(val), simcluster.PutOpt{})
	} else {
		res = kv.Del(key)
	}
	simnet.N.Decide = nil
	r.cl.Quiesce()
	acked := res.Err == "" && m.Alive
	r.hist[key] = append(r.hist[key], c02Rec{Val: val, Acked: acked, FailsAtAck: r.fails,
		Desc: fmt.Sprintf("%s=%s via member%d -> %s (acknowledged=%v, %d member(s) stopped so far)", o.Kind, val, m.Idx, res, acked, r.fails)})
	if r.soon {
		r.soon = false
		r.restabilise(true)
	}
}

var c02Trace bool

func (r *c02Run) trace(what string) {
	if !c02Trace {
		return
	}
	fmt.Println("==", what)
	for _, m := range r.live() {
		t := m.DB.VerifRT().VerifTable()
		var s []string
		for p := uint64(0); p < 7; p++ {
			s = append(s, fmt.Sprintf("%d:%s/%s", p, namesOf(t[p].Owners), namesOf(t[p].Backups)))
		}
		fmt.Printf("   member%d table %s\n", m.Idx, strings.Join(s, " "))
	}
	for i, k := range r.keys {
		fmt.Printf("   k%d (part %d) %s\n", i, r.cl.PartID("d", k), r.copies(k))
	}
}

func c02Execute(cfg c02Cfg, prefix []int) *c02Run {
	sched.ResetClock()
	r := &c02Run{cfg: cfg, prefix: prefix, hist: map[string][]c02Rec{}}
	r.cl = simcluster.New(simcluster.Opts{N: cfg.N, Replicas: cfg.R, WriteQ: 1, ReadQ: 1, Partitions: 7, ReadRepair: cfg.RR, TableSize: cfg.Table})
	cl := r.cl
	simnet.N.OnKill = func(name string) {
		if m := cl.ByName(name); m != nil && m.Alive {
			cl.Crash(m)
		}
	}
	view := cl.Members[0]
	// k0: owned by the oldest member (the coordinator); k1: owned by the youngest member;
	// k2: owned by a middle member (or the youngest again when N=2)
	want := []int{0, cfg.N - 1, cfg.N / 2}
	for i, w := range want {
		w := w
		r.keys = append(r.keys, cl.FindKey(fmt.Sprintf("k%d-", i), func(k string) bool { return cl.Owner(view, "d", k).Idx == w }))
	}
	for i := 0; i < cfg.Fill; i++ {
		part := cl.PartID("d", r.keys[0])
		r.keys = append(r.keys, cl.FindKey(fmt.Sprintf("x%d-", i), func(k string) bool { return cl.PartID("d", k) == part }))
	}
	for _, k := range r.keys {
		res := r.kv(cl.Members[0]).Put(k, []byte("init"), simcluster.PutOpt{})
		if res.Err != "" {
			panic("c02: initial Put failed: " + res.Err)
		}
		r.hist[k] = append(r.hist[k], c02Rec{Val: "init", Acked: true, Desc: "put=init (healthy cluster)"})
	}
	r.trace("initial")
	for i, o := range cfg.Ops {
		r.gap(fmt.Sprintf("before operation %d", i+1))
		r.trace("after gap")
		r.doOp(o)
		r.trace("after " + o.String())
	}
	r.gap("after the last operation")
	r.restabilise(false)
	r.trace("final")
	r.judge()
	return r
}

func (r *c02Run) judge() {
	cfg := r.cfg
	class := strings.Join(r.classes, "+")
	if class == "" {
		class = "no-fault"
	}
	kp := fmt.Sprintf("R=%d/%s/", cfg.R, class)
	live := r.live()
	for ki, key := range r.keys {
		// allowed final values
		allowed := map[string]bool{}
		var descs []string
		for _, rec := range r.hist[key] {
			descs = append(descs, rec.Desc)
			strong := rec.Acked && (cfg.N-rec.FailsAtAck >= cfg.R || rec.FailsAtAck == r.fails)
			if strong {
				allowed = map[string]bool{rec.Val: true}
			} else {
				allowed[rec.Val] = true
			}
		}
		var al []string
		for v := range allowed {
			if v == "" {
				v = "<not found>"
			}
			al = append(al, v)
		}
		sort.Strings(al)
		for _, m := range live {
			res := r.kv(m).Get(key)
			got := string(res.Val)
			switch {
			case res.Err == "notfound":
				got = ""
			case res.Err != "":
				r.failf(kp+"read-fails", "after re-stabilisation Get(k%d) on member%d fails with %s; history of the key: %s", ki, m.Idx, res.Err, strings.Join(descs, " | "))
				continue
			}
			if allowed[got] {
				continue
			}
			sym := "rolled-back-or-foreign-value"
			if got == "" {
				sym = "acknowledged-put-lost"
			} else if len(allowed) == 1 && allowed[""] {
				sym = "acknowledged-delete-undone"
			}
			g := got
			if g == "" {
				g = "<not found>"
			}
			if why := r.explainedByColocation(key); sym == "acknowledged-put-lost" && why == "after-rebalance" {
				r.failf("replica-colocated-with-primary-after-rebalance/acknowledged-put-lost", "(%s) after the re-stabilisation that followed an earlier stop the only copies of k%d sat on one member (primary copy and replica together) while a listed backup owner held nothing; that member stopped next: Get(k%d) on member%d returns <not found>, allowed %v; history of the key: %s", class, ki, ki, m.Idx, al, strings.Join(descs, " | "))
				continue
			} else if sym == "acknowledged-put-lost" && why == "during-handover" {
				r.failf("replica-colocated-with-primary-during-handover/acknowledged-put-lost", "(%s) in the middle of the hand-over that followed a join the only copies of k%d sat on one member (its primary copy, not yet moved to the new owner, and the replica the other member had just handed to it) at the instant that member stopped: Get(k%d) on member%d returns <not found>, allowed %v; history of the key: %s", class, ki, ki, m.Idx, al, strings.Join(descs, " | "))
				continue
			}
			r.failf(kp+sym, "after re-stabilisation Get(k%d) on member%d returns %s, allowed %v; history of the key: %s; copies: %s", ki, m.Idx, g, al, strings.Join(descs, " | "), r.copies(key))
		}
	}
	// plain operations after the failure behave as in a healthy cluster
	for ki, key := range r.keys {
		w := live[ki%len(live)]
		d := live[(ki+1)%len(live)]
		steps := []struct {
			op, val string
			m       *simcluster.Member
		}{{"put", "post1", w}, {"del", "", d}, {"put", "post2", d}}
		for _, st := range steps {
			var res simcluster.Res
			if st.op == "put" {
				res = r.kv(st.m).Put(key, []byte(st.val), simcluster.PutOpt{})
			} else {
				res = r.kv(st.m).Del(key)
			}
			if res.Err != "" {
				r.failf(kp+"later-"+st.op+"-fails", "after re-stabilisation %s(k%d) on member%d fails with %s", st.op, ki, st.m.Idx, res.Err)
				break
			}
			bad := false
			for _, m := range live {
				g := r.kv(m).Get(key)
				ok := (st.val == "" && g.Err == "notfound") || (st.val != "" && g.Err == "" && string(g.Val) == st.val)
				if !ok {
					r.failf(kp+"later-"+st.op+"-not-visible", "after re-stabilisation %s(k%d, %q) on member%d was acknowledged but Get on member%d returns %s; copies: %s", st.op, ki, st.val, st.m.Idx, m.Idx, g, r.copies(key))
					bad = true
					break
				}
			}
			if bad {
				break
			}
		}
	}
}

func (r *c02Run) copies(key string) string {
	var s []string
	for _, c := range r.cl.Copies("d", key) {
		s = append(s, fmt.Sprintf("%s:%s=%q@%d", r.short(c.Member), c.Kind, c.Value, c.Timestamp))
	}
	owner := r.cl.Owner(r.live()[0], "d", key)
	var bs []string
	for _, b := range r.cl.Backups(r.live()[0], "d", key) {
		if b != nil {
			bs = append(bs, fmt.Sprintf("member%d", b.Idx))
		}
	}
	o := "?"
	if owner != nil {
		o = fmt.Sprintf("member%d", owner.Idx)
	}
	return fmt.Sprintf("[%s] owner=%s backups=%v", strings.Join(s, " "), o, bs)
}

// ---- explorer ------------------------------------------------------------------------------------

type c02Job struct {
	Cfg c02Cfg `json:"cfg"`
}

type c02Viol struct {
	Key    string
	What   string
	Prefix []int
	Faults []string
}

type c02Res struct {
	Runs      int
	Points    int
	MaxPoints int
	ByDev     [4]int // runs by number of deviations
	Viol      []c02Viol
	Outcomes  int
}

func c02Explore(cfg c02Cfg) c02Res {
	var res c02Res
	seen := map[string]bool{}
	outcomes := map[string]bool{}
	bound := cfg.R - 1
	var explore func(prefix []int)
	explore = func(prefix []int) {
		r := c02Execute(cfg, prefix)
		res.Runs++
		res.Points += len(r.points)
		if len(r.points) > res.MaxPoints {
			res.MaxPoints = len(r.points)
		}
		dev := 0
		var faults []string
		for _, p := range r.points {
			if p.Ch != 0 {
				dev++
				faults = append(faults, p.Desc)
			}
		}
		if dev < len(res.ByDev) {
			res.ByDev[dev]++
		}
		var o []string
		for _, k := range r.keys {
			for _, rec := range r.hist[k] {
				o = append(o, fmt.Sprint(rec.Acked))
			}
		}
		outcomes[strings.Join(o, ",")+fmt.Sprint(len(r.live()))] = true
		for _, f := range r.out {
			if !seen[f.Key] {
				seen[f.Key] = true
				ch := make([]int, len(r.points))
				for i, p := range r.points {
					ch[i] = p.Ch
				}
				res.Viol = append(res.Viol, c02Viol{f.Key, f.What, ch, faults})
			}
		}
		for i := len(prefix); i < len(r.points); i++ {
			cost := 0
			for _, p := range r.points[:i] {
				if p.Ch != 0 {
					cost++
				}
			}
			if cost+1 > bound {
				break
			}
			for alt := 1; alt < r.points[i].N; alt++ {
				np := make([]int, 0, i+1)
				for _, p := range r.points[:i] {
					np = append(np, p.Ch)
				}
				explore(append(np, alt))
			}
		}
	}
	explore(nil)
	res.Outcomes = len(outcomes)
	return res
}

func c02Configs(tier string) []c02Cfg {
	alpha := []c02Op{{"put", 0, 1}, {"put", 1, 0}, {"del", 0, 0}, {"del", 1, 1}, {"put", 2, 0}}
	type base struct {
		n, r  int
		rr    bool
		l     int
		stab  bool
		table int // 0: 64 KiB tables; 128: fragments span several tables (with three more keys in k0's partition)
	}
	bases := []base{{3, 2, false, 3, true, 0}, {3, 2, true, 2, false, 0}, {4, 2, false, 2, false, 0}, {3, 3, false, 1, true, 0}, {4, 3, true, 1, false, 0}, {3, 2, false, 2, false, 128}}
	if tier == "thorough" {
		bases = []base{{3, 2, false, 3, true, 0}, {3, 2, true, 3, true, 0}, {4, 2, false, 3, true, 0}, {5, 2, true, 2, true, 0},
			{3, 3, false, 2, true, 0}, {3, 3, true, 2, false, 0}, {4, 3, false, 2, false, 0}, {4, 3, true, 1, true, 0}, {5, 3, false, 1, true, 0}, {5, 3, true, 2, false, 0},
			{3, 2, false, 3, false, 128}, {3, 3, false, 2, false, 128}}
	}
	per := make([][]c02Cfg, len(bases))
	for bi, b := range bases {
		var rec func(cur []c02Op)
		rec = func(cur []c02Op) {
			if len(cur) == b.l {
				cf := c02Cfg{N: b.n, R: b.r, RR: b.rr, Ops: append([]c02Op{}, cur...), StabFaults: b.stab, Table: b.table}
				if b.table != 0 {
					cf.Fill = 3
				}
				per[bi] = append(per[bi], cf)
				return
			}
			for _, o := range alpha {
				rec(append(cur, o))
			}
		}
		rec(nil)
	}
	// round-robin over the configurations, so that a run that hits its time budget has covered every
	// configuration to the same extent
	var out []c02Cfg
	for i := 0; ; i++ {
		any := false
		for _, l := range per {
			if i < len(l) {
				out = append(out, l[i])
				any = true
			}
		}
		if !any {
			return out
		}
	}
}

func init() {
	core.Replayers = append(core.Replayers, func(id string, raw json.RawMessage) (bool, []string) {
		var r struct {
			Cfg     *c02Cfg `json:"cfg"`
			Choices []int   `json:"choices"`
		}
		if (id != "C02" && id != "C03") || json.Unmarshal(raw, &r) != nil || r.Cfg == nil {
			return false, nil
		}
		run := c02Execute(*r.Cfg, r.Choices)
		var out []string
		for _, p := range run.points {
			if p.Ch != 0 {
				out = append(out, "fault: "+p.Desc)
			}
		}
		n := len(out)
		for _, f := range run.out {
			out = append(out, f.Key+": "+f.What)
		}
		if len(out) == n {
			return true, nil
		}
		return true, out
	})
	core.RegisterJob("c02", func(raw json.RawMessage) (interface{}, error) {
		var p c02Job
		if err := json.Unmarshal(raw, &p); err != nil {
			return nil, err
		}
		return c02Explore(p.Cfg), nil
	})
	core.Register(&core.Check{ID: "C02", Level: "fault_enumeration", Run: func(c *core.Ctx) {
		cfgs := c02Configs(c.Tier)
		var params []interface{}
		for _, cf := range cfgs {
			params = append(params, c02Job{cf})
		}
		runs, points, maxp, outcomes := 0, 0, 0, 0
		var byDev [4]int
		done := 0
		core.RunJobsUntil("c02", params, 30*time.Minute, func(idx int, res json.RawMessage, crash string) {
			done++
			jp := params[idx].(c02Job)
			if crash != "" {
				c.Violate("C02/worker-crash/"+jp.Cfg.String(), "worker failed: "+crash, jp)
				return
			}
			var r c02Res
			json.Unmarshal(res, &r)
			runs += r.Runs
			points += r.Points
			outcomes += r.Outcomes
			if r.MaxPoints > maxp {
				maxp = r.MaxPoints
			}
			for i := range byDev {
				byDev[i] += r.ByDev[i]
			}
			for _, v := range r.Viol {
				c.Violate("C02/"+v.Key, fmt.Sprintf("%s; faults: %s => %s", jp.Cfg, strings.Join(v.Faults, " ; "), v.What),
					map[string]interface{}{"cfg": jp.Cfg, "choices": v.Prefix})
			}
		}, c.TimeUp)
		for i := 0; i < len(cfgs); i += len(cfgs)/6 + 1 {
			c.Sample(cfgs[i].String())
		}
		c.Cov["evaluations"] = runs
		c.Cov["states"] = runs
		c.Cov["transitions"] = points
		c.Cov["max_decision_points_per_run"] = maxp
		c.Cov["runs_by_number_of_stopped_members"] = fmt.Sprintf("0:%d 1:%d 2:%d", byDev[0], byDev[1], byDev[2])
		c.Cov["distinct_nontrivial"] = runs - byDev[0]
		c.Cov["distinct_outcomes_total"] = outcomes
		c.Cov["workloads_x_configurations"] = len(cfgs)
		c.Cov["exhaustive"] = done == len(params)
		if done < len(params) {
			c.Cov["capped"] = fmt.Sprintf("time budget reached: %d of %d (configuration, workload) jobs explored completely, the others not started", done, len(params))
		}
		c.Cov["rule"] = "for every (N, R, read-repair, workload) configuration - workloads are all sequences of the given length over {put k0 via youngest, put k1 via oldest, del k0 via oldest, del k1 via youngest, put k2 via oldest}, k0 owned by the coordinator, k1 by the youngest member, k2 by a middle member - every fault schedule with at most R-1 stopped members: at each gap (before / between / after operations) any live member leaves gracefully, stops and is detected, or stops undetected until the end; at each command delivered between members during an operation (and, where enabled, during the re-stabilisation after an earlier stop) the caller or the callee stops before or after the command is handled, detected after the operation or only at the end. After the workload: detection, stabilisation to a fixpoint, then every key is read on every survivor and must be the last acknowledged value (or the value of a later unacknowledged / under-replicated operation); then Put, Delete, Put on every key through survivors with a Get on every survivor after each."
		c.Assumef("a member that stops abruptly in the middle of executing an operation never acknowledges it (its return value is ignored); an operation acknowledged while fewer than R members were healthy and followed by a further stop is treated like an unacknowledged one; the network is the inline simulated one (command granularity), membership is the harness-driven layer")
	}})
}
