package checks

import (
	"fmt"

	"github.com/olric-data/olric/internal/verif/core"
	"github.com/olric-data/olric/internal/verif/kvmc"
)

type kvReplay struct {
	TableSize   int      `json:"table_size"`
	IdleTimeout int64    `json:"idle_timeout"`
	Path        []string `json:"path"`
	Ops         []kvmc.Op `json:"ops"`
	Layout      string   `json:"layout"`
}

type kvPlan struct {
	cfg   kvmc.Config
	depth int
}

// runKV runs the E1 search for every plan with the given oracle set and folds the results into the evidence.
func runKV(c *core.Ctx, plans []kvPlan, oracle func(w *kvmc.World, path []kvmc.Op) []kvmc.Fail, nontrivial func(w *kvmc.World) bool) {
	states, trans, nontriv := 0, 0, 0
	exhaustive := true
	var bounds []string
	for _, p := range plans {
		p := p
		s := &kvmc.Search{Cfg: p.cfg, Depth: p.depth, MaxFails: 40, CheckState: oracle, TimeUp: c.TimeUp}
		s.OnFail = func(path []kvmc.Op, f kvmc.Fail, w *kvmc.World) {
			last := path[len(path)-1]
			key := fmt.Sprintf("%s/ts%d/%s/after=%s", c.ID, p.cfg.TableSize, f.Key, opKindName(last))
			c.Violate(key, fmt.Sprintf("tableSize=%d path=[%s]: %s", p.cfg.TableSize, kvmc.PathString(path), f.What),
				kvReplay{p.cfg.TableSize, p.cfg.IdleTimeout, []string{kvmc.PathString(path)}, path, kvmc.Layout(w.St)})
		}
		s.OnState = func(path []kvmc.Op, w *kvmc.World) {
			kvmc.Situations(w.St, c.Situation)
			if nontrivial(w) {
				nontriv++
			}
			if len(path) == p.depth || len(path) == 3 {
				c.Sample(fmt.Sprintf("ts=%d: %s", p.cfg.TableSize, kvmc.PathString(path)))
			}
		}
		r := s.Run()
		states += r.States
		trans += r.Transitions
		b := fmt.Sprintf("tableSize=%d idle=%d: depth %d completed, %d states, %d transitions, per-depth new states %v", p.cfg.TableSize, p.cfg.IdleTimeout, r.Depth, r.States, r.Transitions, r.PerDepth)
		if r.Capped != "" {
			b += " CAPPED: " + r.Capped
			exhaustive = false
		}
		bounds = append(bounds, b)
	}
	c.Cov["states"] = states
	c.Cov["transitions"] = trans
	c.Cov["evaluations"] = trans
	c.Cov["distinct_nontrivial"] = nontriv
	c.Cov["exhaustive"] = exhaustive
	c.Cov["bounds_completed"] = bounds
	// every explored transition is an execution of the real KVStore: no stand-in but the clock
	c.Cov["traces_validated_against_impl"] = trans
	c.Cov["alphabet"] = func() []string {
		var a []string
		for _, o := range plans[0].cfg.Alphabet() {
			a = append(a, o.String())
		}
		return a
	}()
}

func opKindName(o kvmc.Op) string {
	s := o.String()
	for i, ch := range s {
		if ch == '(' {
			return s[:i]
		}
	}
	return s
}

func multiTable(w *kvmc.World) bool { return w.St.Stats().NumTables >= 2 }

func init() {
	core.Register(&core.Check{ID: "C11", Level: "model_checking", Run: func(c *core.Ctx) {
		depth := 6
		if !c.Quick() {
			depth = 8
		}
		kinds := []kvmc.OpKind{kvmc.OpPut, kvmc.OpPutRaw, kvmc.OpDel, kvmc.OpTTL, kvmc.OpCompact, kvmc.OpTransfer}
		var plans []kvPlan
		for _, ts := range []int{128, 200} {
			plans = append(plans, kvPlan{kvmc.Config{TableSize: ts, Keys: 3, Sizes: []int{10, 30}, Kinds: kinds, IdleTimeout: int64(15 * 60 * 1e9), MaxTables: 12}, depth})
		}
		c.Cov["rule"] = "BFS over operation paths on the real KVStore (fresh store + replay per transition), de-duplicated on the canonical table layout; non-trivial = distinct states whose store spans >= 2 tables"
		oracle := func(w *kvmc.World, path []kvmc.Op) []kvmc.Fail {
			if fs := kvmc.MapOracle(w, path); len(fs) > 0 {
				return fs
			}
			return kvmc.CompactionOracle(w, path)
		}
		runKV(c, plans, oracle, multiTable)
		c.Assumef("hkeys are chosen by the driver (1..3): hash collisions between different keys are out of scope")
		c.Assumef("canonical form drops last-access stamps, unreachable bytes, absolute coefficients (gaps kept) and absolute timestamps (per-key order kept)")
	}})
}

func init() {
	core.Register(&core.Check{ID: "C12", Level: "model_checking", Run: func(c *core.Ctx) {
		depth := 6
		if !c.Quick() {
			depth = 8
		}
		kinds := []kvmc.OpKind{kvmc.OpPut, kvmc.OpPutRaw, kvmc.OpDel, kvmc.OpCompact, kvmc.OpTransfer}
		var plans []kvPlan
		for _, ts := range []int{128, 200} {
			plans = append(plans, kvPlan{kvmc.Config{TableSize: ts, Keys: 3, Sizes: []int{10, 30}, Kinds: kinds, IdleTimeout: int64(15 * 60 * 1e9), MaxTables: 12}, depth})
		}
		c.Cov["rule"] = "storage level: in every state of the E1 BFS a full cursor scan is run for COUNT in {1,2,10} x MATCH in {none,^a,^zz}; non-trivial = distinct states whose store spans >= 2 tables"
		runKV(c, plans, kvmc.ScanOracle, multiTable)
	}})
}
