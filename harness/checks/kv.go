package checks

import (
	"fmt"
	"github.com/olric-data/olric/internal/verif/clustermc"

	"github.com/olric-data/olric/internal/verif/core"
	"github.com/olric-data/olric/internal/verif/kvmc"
)

type kvReplay struct {
	TableSize   int       `json:"table_size"`
	IdleTimeout int64     `json:"idle_timeout"`
	Path        []string  `json:"path"`
	Ops         []kvmc.Op `json:"ops"`
	Layout      string    `json:"layout"`
}

type kvPlan struct {
	cfg   kvmc.Config
	depth int
}

// runKV runs the E1 search for every plan with the given oracle set and folds the results into the evidence.
func runKV(c *core.Ctx, plans []kvPlan, oracle func(w *kvmc.World, path []kvmc.Op) []kvmc.Fail, nontrivial func(w *kvmc.World) bool) {
	states, trans, nontriv := 0, 0, 0
	exhaustive := true
	var bounds []string
	for _, p := range plans {
		p := p
		s := &kvmc.Search{Cfg: p.cfg, Depth: p.depth, MaxFails: 40, CheckState: oracle, TimeUp: c.TimeUp}
		s.OnFail = func(path []kvmc.Op, f kvmc.Fail, w *kvmc.World) {
			last := path[len(path)-1]
			key := fmt.Sprintf("%s/ts%d/%s/after=%s", c.ID, p.cfg.TableSize, f.Key, opKindName(last))
			c.Violate(key, fmt.Sprintf("tableSize=%d path=[%s]: %s", p.cfg.TableSize, kvmc.PathString(path), f.What),
				kvReplay{p.cfg.TableSize, p.cfg.IdleTimeout, []string{kvmc.PathString(path)}, path, kvmc.Layout(w.St)})
		}
		s.OnState = func(path []kvmc.Op, w *kvmc.World) {
			kvmc.Situations(w.St, c.Situation)
			if nontrivial(w) {
				nontriv++
			}
			if len(path) == p.depth || len(path) == 3 {
				c.Sample(fmt.Sprintf("ts=%d: %s", p.cfg.TableSize, kvmc.PathString(path)))
			}
		}
		r := s.Run()
		states += r.States
		trans += r.Transitions
		b := fmt.Sprintf("tableSize=%d idle=%d: depth %d completed, %d states, %d transitions, per-depth new states %v", p.cfg.TableSize, p.cfg.IdleTimeout, r.Depth, r.States, r.Transitions, r.PerDepth)
		if r.Capped != "" {
			b += " CAPPED: " + r.Capped
			exhaustive = false
		}
		bounds = append(bounds, b)
	}
	c.Cov["states"] = states
	c.Cov["transitions"] = trans
	c.Cov["evaluations"] = trans
	c.Cov["distinct_nontrivial"] = nontriv
	c.Cov["exhaustive"] = exhaustive
	c.Cov["bounds_completed"] = bounds
	// every explored transition is an execution of the real KVStore: no stand-in but the clock
	c.Cov["traces_validated_against_impl"] = trans
	c.Cov["alphabet"] = func() []string {
		var a []string
		for _, o := range plans[0].cfg.Alphabet() {
			a = append(a, o.String())
		}
		return a
	}()
}

func opKindName(o kvmc.Op) string {
	s := o.String()
	for i, ch := range s {
		if ch == '(' {
			return s[:i]
		}
	}
	return s
}

func multiTable(w *kvmc.World) bool { return w.St.Stats().NumTables >= 2 }

func init() {
	core.Register(&core.Check{ID: "C11", Level: "model_checking", Run: func(c *core.Ctx) {
		depth := 6
		if !c.Quick() {
			depth = 8
		}
		kinds := []kvmc.OpKind{kvmc.OpPut, kvmc.OpPutRaw, kvmc.OpDel, kvmc.OpTTL, kvmc.OpCompact, kvmc.OpTransfer}
		var plans []kvPlan
		for _, ts := range []int{128, 200} {
			plans = append(plans, kvPlan{kvmc.Config{TableSize: ts, Keys: 3, Sizes: []int{10, 30}, Kinds: kinds, IdleTimeout: int64(15 * 60 * 1e9), MaxTables: 12}, depth})
			// recycled tables released as soon as a compaction pass finds them (idle timeout 0): the
			// table list and the scan index shrink while older tables are still live
			plans = append(plans, kvPlan{kvmc.Config{TableSize: ts, Keys: 3, Sizes: []int{10, 30}, Kinds: kinds, IdleTimeout: 0, MaxTables: 12}, depth})
		}
		c.Cov["rule"] = "BFS over operation paths on the real KVStore (fresh store + replay per transition), de-duplicated on the canonical table layout; non-trivial = distinct states whose store spans >= 2 tables"
		oracle := func(w *kvmc.World, path []kvmc.Op) []kvmc.Fail {
			if fs := kvmc.MapOracle(w, path); len(fs) > 0 {
				return fs
			}
			return kvmc.CompactionOracle(w, path)
		}
		runKV(c, plans, oracle, multiTable)
		// compaction moves the entries of a table in batches: a grid of tables whose number of
		// surviving entries walks across the batch size (one entry, 999 .. 1002, 1999 .. 2003, 3003)
		bc := kvmc.BatchCases()
		for _, cs := range bc {
			for _, f := range kvmc.RunBatch(cs) {
				c.Violate(fmt.Sprintf("%s/%s/live=%d/raw=%v", c.ID, f.Key, cs.Live, cs.Raw), cs.String()+": "+f.What, cs)
			}
		}
		c.Cov["compaction_batch_grid"] = fmt.Sprintf("%d cases: one table with L surviving entries for L in {1, 999, 1000, 1001, 1002, 1999, 2000, 2001, 2002, 2003, 3003} plus enough deleted entries to pass the compaction threshold, written with Put or PutRaw, deleted entries first or interleaved; Compaction() until done (bounded), then every surviving entry is read back and the entry count compared", len(bc))
		c.Cov["rule"] = c.Cov["rule"].(string) + "; plus the compaction batch grid (see compaction_batch_grid)"
		c.Assumef("hkeys are chosen by the driver (1..3): hash collisions between different keys are out of scope")
		c.Assumef("canonical form drops last-access stamps, unreachable bytes, absolute coefficients (gaps kept) and absolute timestamps (per-key order kept)")
	}})
}

func init() {
	core.Register(&core.Check{ID: "C12", Level: "model_checking", Run: func(c *core.Ctx) {
		depth := 6
		if !c.Quick() {
			depth = 8
		}
		kinds := []kvmc.OpKind{kvmc.OpPut, kvmc.OpPutRaw, kvmc.OpDel, kvmc.OpCompact, kvmc.OpTransfer}
		var plans []kvPlan
		for _, ts := range []int{128, 200} {
			plans = append(plans, kvPlan{kvmc.Config{TableSize: ts, Keys: 3, Sizes: []int{10, 30}, Kinds: kinds, IdleTimeout: int64(15 * 60 * 1e9), MaxTables: 12}, depth})
			// recycled tables released as soon as a compaction pass finds them (idle timeout 0): the
			// table list and the scan index shrink while older tables are still live
			plans = append(plans, kvPlan{kvmc.Config{TableSize: ts, Keys: 3, Sizes: []int{10, 30}, Kinds: kinds, IdleTimeout: 0, MaxTables: 12}, depth})
		}
		c.Cov["rule"] = "storage level: in every state of the E1 BFS a full cursor scan is run for COUNT in {1,2,10} x MATCH in {none,^a,^zz}, and a COUNT=1 scan with every single operation of the alphabet applied between two cursor calls at every position (keys present before and after must be yielded, never-present keys must not, the scan terminates); non-trivial = distinct states whose store spans >= 2 tables"
		runKV(c, plans, func(w *kvmc.World, path []kvmc.Op) []kvmc.Fail {
			return append(kvmc.ScanOracle(w, path), kvmc.ScanUnderChurnOracle(w, path)...)
		}, multiTable)
		storageTraces := c.Cov["traces_validated_against_impl"]
		// cluster level: client iterator and raw DM.SCAN on stable clusters and on a partition
		// that has two primary owners
		c.Cov["rule"] = c.Cov["rule"].(string) + "; cluster level: BFS over put/delete/compact histories on 1-3 members (R 1-2, 128-byte tables) and an explicit grid of (keys written before a join) x (keys written after it) x balancer passes on the partition that moves to the joiner; in every state the client iterator (must yield each present matching key exactly once and terminate) and raw DM.SCAN cursor loops per partition and owner (at least once, nothing absent) run for COUNT in {1,2,default} x MATCH in {none,^a,^zz}; the BFS also contains, for every plain operation and every position 0-2, a client iteration (COUNT=1) during which that operation lands after that many yielded keys: keys present before and after must be yielded exactly once, never-present keys not at all"
		c12Cluster(c)
		c.Cov["traces_validated_against_impl"] = storageTraces
	}})
}

func init() {
	core.Register(&core.Check{ID: "C20", Level: "model_checking", Run: func(c *core.Ctx) {
		burst, keys := 3, 2
		if !c.Quick() {
			burst, keys = 4, 3
		}
		states, trans, ops := 0, 0, 0
		allClosed := true
		var bounds []string
		for _, mode := range []kvmc.OpKind{kvmc.OpPut, kvmc.OpPutRaw} {
			for _, idle := range []int64{0, int64(15 * 60 * 1e9)} {
				cfg := kvmc.Config{TableSize: 128, Keys: keys, Sizes: []int{12, 30}, Kinds: []kvmc.OpKind{mode, kvmc.OpDel}, IdleTimeout: idle, MaxTables: 16}
				name := "primary(Put)"
				if mode == kvmc.OpPutRaw {
					name = "backup(PutRaw)"
				}
				s := &kvmc.ChurnSearch{Cfg: cfg, Burst: burst, MaxRounds: 40, CheckAny: kvmc.AccountingOracle, CheckCompacted: kvmc.BoundedOracle, TimeUp: c.TimeUp}
				s.OnFail = func(path []kvmc.Op, f kvmc.Fail, w *kvmc.World) {
					key := fmt.Sprintf("C20/%s/idle=%v/%s", name, idle != 0, f.Key)
					c.Violate(key, fmt.Sprintf("%s tableSize=128 idleTimeout=%d path=[%s]: %s | %s", name, idle, kvmc.PathString(path), f.What, kvmc.Layout(w.St)),
						kvReplay{128, idle, []string{kvmc.PathString(path)}, path, kvmc.Layout(w.St)})
				}
				n := 0
				s.OnState = func(path []kvmc.Op, w *kvmc.World) {
					n++
					if n%17 == 1 {
						c.Sample(fmt.Sprintf("%s idle=%v: %s", name, idle != 0, kvmc.PathString(path)))
					}
				}
				r := s.Run()
				states += r.States
				trans += r.Transitions
				ops += r.Ops
				b := fmt.Sprintf("%s idleTimeout=%d keys=%d burst<=%d: %d post-compaction states, %d rounds executed, %d bursts, max %d tables / %d bytes allocated", name, idle, keys, burst, r.States, r.Rounds, r.Transitions, r.MaxTables, r.MaxAlloc)
				if r.Closed {
					b += " - CLOSED (no new state: the bounds hold for churn of any length over this alphabet)"
				} else {
					b += " - NOT closed: " + r.Capped
					allClosed = false
				}
				bounds = append(bounds, b)
			}
		}
		c.Cov["states"] = states
		c.Cov["transitions"] = trans
		c.Cov["evaluations"] = ops
		c.Cov["distinct_nontrivial"] = states
		c.Cov["exhaustive"] = allClosed
		c.Cov["fixpoint_reached"] = allClosed
		c.Cov["bounds_completed"] = bounds
		c.Cov["traces_validated_against_impl"] = trans
		c.Cov["rule"] = "fixpoint search on the real KVStore: a state is a post-compaction layout in canonical form; a transition is a burst of 1..burst operations from {Put or PutRaw (k,size), Delete(k)} followed by Compaction() until done; accounting is checked after every burst, the bounds (garbage below threshold on every live table, tables <= live keys + 2, recycled tables released with a zero idle timeout) on every post-compaction state; the search ends when no burst leads to a new state"
		c.Assumef("values are abstracted to two sizes and keys to %d; the canonical form keeps table layout, gaps in numbering and per-key version order (see kvmc.Canon)", keys)
		// cluster level: the compaction WORKER (which fragments it visits on which member) on a
		// replicated cluster; the storage-level numbers above are kept, the BFS adds its own
		keep := map[string]interface{}{}
		for _, k := range []string{"states", "transitions", "evaluations", "distinct_nontrivial", "exhaustive", "bounds_completed", "traces_validated_against_impl"} {
			keep[k] = c.Cov[k]
		}
		clustermc.RunFamily(c, "C20")
		c.Cov["cluster_part"] = map[string]interface{}{
			"what":             "BFS over {Put, Delete of three keys in two partitions with different primary owners, compaction pass = the real compaction worker body on every member for every partition} on a replicated cluster with 128-byte tables; after every compaction pass every primary and backup fragment on every member: no live table at or above the 40% garbage threshold, tables <= live keys + 2",
			"states":           c.Cov["states"],
			"transitions":      c.Cov["transitions"],
			"bounds_completed": c.Cov["bounds_completed"],
			"exhaustive":       c.Cov["exhaustive"],
		}
		clusterExh, _ := c.Cov["exhaustive"].(bool)
		for k, v := range keep {
			c.Cov[k] = v
		}
		if b, ok := keep["exhaustive"].(bool); ok {
			c.Cov["exhaustive"] = b && clusterExh
		}
	}})
}
