package checks

import (
	"bytes"
	"context"
	"encoding/json"
	"fmt"
	"math"
	"strings"
	"time"

	olric "github.com/olric-data/olric"
	"github.com/olric-data/olric/internal/verif/core"
	"github.com/olric-data/olric/internal/verif/sched"
	"github.com/olric-data/olric/internal/verif/simcluster"
)

// C17: every supported value type at its boundaries, keys of every length around the maximum,
// entries around the table size; read back equal, into the same type, directly, after failover to
// the backup copy, and after migration to another member. Rejections must be the documented errors
// and must leave nothing behind.

type binMarshaler struct{ b []byte }

func (m binMarshaler) MarshalBinary() ([]byte, error) { return m.b, nil }

type c17Value struct {
	Name  string
	Put   interface{}
	Check func(r *olric.GetResponse) string // "" = equal
}

func cmp[T comparable](name string, want T, get func(*olric.GetResponse) (T, error)) c17Value {
	return c17Value{Name: fmt.Sprintf("%s(%v)", name, want), Put: want, Check: func(r *olric.GetResponse) string {
		got, err := get(r)
		if err != nil {
			return fmt.Sprintf("getter failed: %v", err)
		}
		if got != want {
			return fmt.Sprintf("read back %v, wrote %v", got, want)
		}
		return ""
	}}
}

func c17Values() []c17Value {
	var vs []c17Value
	for _, x := range []int{math.MinInt, -1, 0, 1, math.MaxInt} {
		vs = append(vs, cmp("int", x, (*olric.GetResponse).Int))
	}
	for _, x := range []int8{math.MinInt8, -1, 0, math.MaxInt8} {
		vs = append(vs, cmp("int8", x, (*olric.GetResponse).Int8))
	}
	for _, x := range []int16{math.MinInt16, 0, math.MaxInt16} {
		vs = append(vs, cmp("int16", x, (*olric.GetResponse).Int16))
	}
	for _, x := range []int32{math.MinInt32, 0, math.MaxInt32} {
		vs = append(vs, cmp("int32", x, (*olric.GetResponse).Int32))
	}
	for _, x := range []int64{math.MinInt64, 0, math.MaxInt64} {
		vs = append(vs, cmp("int64", x, (*olric.GetResponse).Int64))
	}
	for _, x := range []uint{0, 1, math.MaxUint} {
		vs = append(vs, cmp("uint", x, (*olric.GetResponse).Uint))
	}
	for _, x := range []uint8{0, math.MaxUint8} {
		vs = append(vs, cmp("uint8", x, (*olric.GetResponse).Uint8))
	}
	for _, x := range []uint16{0, math.MaxUint16} {
		vs = append(vs, cmp("uint16", x, (*olric.GetResponse).Uint16))
	}
	for _, x := range []uint32{0, math.MaxUint32} {
		vs = append(vs, cmp("uint32", x, (*olric.GetResponse).Uint32))
	}
	for _, x := range []uint64{0, math.MaxUint64} {
		vs = append(vs, cmp("uint64", x, (*olric.GetResponse).Uint64))
	}
	for _, x := range []float64{0, math.Copysign(0, -1), math.SmallestNonzeroFloat64, math.MaxFloat64, -math.MaxFloat64, math.Inf(1), math.Inf(-1), 0.1, 1e21, 123456789.123456789} {
		x := x
		vs = append(vs, c17Value{Name: fmt.Sprintf("float64(%v)", x), Put: x, Check: func(r *olric.GetResponse) string {
			got, err := r.Float64()
			if err != nil {
				return fmt.Sprintf("getter failed: %v", err)
			}
			if math.Float64bits(got) != math.Float64bits(x) {
				return fmt.Sprintf("read back %v (bits %x), wrote %v (bits %x)", got, math.Float64bits(got), x, math.Float64bits(x))
			}
			return ""
		}})
	}
	vs = append(vs, c17Value{Name: "float64(NaN)", Put: math.NaN(), Check: func(r *olric.GetResponse) string {
		got, err := r.Float64()
		if err != nil {
			return fmt.Sprintf("getter failed: %v", err)
		}
		if !math.IsNaN(got) {
			return fmt.Sprintf("read back %v, wrote NaN", got)
		}
		return ""
	}})
	for _, x := range []float32{0, math.SmallestNonzeroFloat32, math.MaxFloat32, -math.MaxFloat32, 0.1, float32(math.Inf(1))} {
		x := x
		vs = append(vs, c17Value{Name: fmt.Sprintf("float32(%v)", x), Put: x, Check: func(r *olric.GetResponse) string {
			got, err := r.Float32()
			if err != nil {
				return fmt.Sprintf("getter failed: %v", err)
			}
			if math.Float32bits(got) != math.Float32bits(x) {
				return fmt.Sprintf("read back %v, wrote %v", got, x)
			}
			return ""
		}})
	}
	vs = append(vs, cmp("bool", true, (*olric.GetResponse).Bool), cmp("bool", false, (*olric.GetResponse).Bool))
	for _, x := range []string{"", "a", "\x00", "\r\n", "$-1\r\n", "*3\r\n$3\r\nfoo", "héllo wörld ✓", strings.Repeat("x", 1024), string([]byte{0xff, 0xfe, 0x00, 0x80})} {
		x := x
		vs = append(vs, c17Value{Name: fmt.Sprintf("string(len=%d,%.12q)", len(x), x), Put: x, Check: func(r *olric.GetResponse) string {
			got, err := r.String()
			if err != nil {
				return fmt.Sprintf("getter failed: %v", err)
			}
			if got != x {
				return fmt.Sprintf("read back %.40q (len %d), wrote %.40q (len %d)", got, len(got), x, len(x))
			}
			return ""
		}})
		b := []byte(x)
		vs = append(vs, c17Value{Name: fmt.Sprintf("[]byte(len=%d,%.12q)", len(b), b), Put: b, Check: func(r *olric.GetResponse) string {
			got, err := r.Byte()
			if err != nil {
				return fmt.Sprintf("getter failed: %v", err)
			}
			if !bytes.Equal(got, b) {
				return fmt.Sprintf("read back %.40q (len %d), wrote %.40q (len %d)", got, len(got), b, len(b))
			}
			return ""
		}})
	}
	for _, x := range []time.Time{{}, time.Unix(1893456000, 123456789).UTC(), time.Date(9999, 12, 31, 23, 59, 59, 999999999, time.UTC), time.Date(2030, 6, 1, 12, 0, 0, 5, time.FixedZone("X", 5*3600+1800))} {
		x := x
		vs = append(vs, c17Value{Name: "time(" + x.Format(time.RFC3339Nano) + ")", Put: x, Check: func(r *olric.GetResponse) string {
			got, err := r.Time()
			if err != nil {
				return fmt.Sprintf("getter failed: %v", err)
			}
			if !got.Equal(x) {
				return fmt.Sprintf("read back %v, wrote %v", got, x)
			}
			return ""
		}})
	}
	for _, x := range []time.Duration{math.MinInt64, -1, 0, 1500 * time.Millisecond, math.MaxInt64} {
		vs = append(vs, cmp("duration", x, (*olric.GetResponse).Duration))
	}
	bm := binMarshaler{[]byte{0, 1, 2, '\r', '\n', 0xff}}
	vs = append(vs, c17Value{Name: "BinaryMarshaler", Put: bm, Check: func(r *olric.GetResponse) string {
		got, err := r.Byte()
		if err != nil {
			return fmt.Sprintf("getter failed: %v", err)
		}
		if !bytes.Equal(got, bm.b) {
			return fmt.Sprintf("read back %q, wrote %q", got, bm.b)
		}
		return ""
	}})
	return vs
}

func c17Keys() []string {
	bin := func(n int) string {
		b := make([]byte, n)
		for i := range b {
			b[i] = byte(i*37 + 1)
		}
		return string(b)
	}
	return []string{"k", "", strings.Repeat("K", 254), strings.Repeat("K", 255), bin(255), "key with \r\n and \x00"}
}

type c17Case struct {
	Kind  string `json:"kind"` // value | key | size
	VI    int    `json:"vi"`
	KI    int    `json:"ki"`
	Path  string `json:"path"`
	Stage string `json:"stage"` // direct | failover | migrate
	KLen  int    `json:"klen,omitempty"`
	Delta int    `json:"delta,omitempty"` // size cases: entry size = tableSize + delta
}

const c17Table = 512

func (c c17Case) String() string {
	switch c.Kind {
	case "key":
		return fmt.Sprintf("key of %d bytes via %s, stage %s", c.KLen, c.Path, c.Stage)
	case "size":
		return fmt.Sprintf("entry of tableSize%+d bytes (tableSize %d) via %s, stage %s", c.Delta, c17Table, c.Path, c.Stage)
	}
	return fmt.Sprintf("%s under key #%d via %s, stage %s", c17Values()[c.VI].Name, c.KI, c.Path, c.Stage)
}

func c17Cases(tier string) []c17Case {
	var cs []c17Case
	vals, keys := c17Values(), c17Keys()
	paths := []string{"EO", "EN", "CC"}
	stages := []string{"direct", "failover", "migrate"}
	for vi := range vals {
		for _, st := range stages {
			for pi, p := range paths {
				ki := 0
				if tier == "thorough" || (vi+pi)%len(keys) == 0 {
					// quick: every value with the plain key, plus a rotating special key
					ki = (vi + pi) % len(keys)
				}
				cs = append(cs, c17Case{Kind: "value", VI: vi, KI: ki, Path: p, Stage: st})
				if tier == "thorough" && ki != 0 {
					cs = append(cs, c17Case{Kind: "value", VI: vi, KI: 0, Path: p, Stage: st})
				}
			}
		}
	}
	// every value written through a pipeline of the cluster client as well (Put and GetPut), queued
	// between other value-carrying commands: what is stored must be the value that was queued
	for vi := range vals {
		for _, p := range []string{"PL", "PLG"} {
			cs = append(cs, c17Case{Kind: "value", VI: vi, KI: 0, Path: p, Stage: "direct"})
		}
	}
	for _, kl := range []int{0, 1, 254, 255, 256, 257, 300} {
		for _, p := range paths {
			for _, st := range []string{"direct", "failover"} {
				cs = append(cs, c17Case{Kind: "key", KLen: kl, Path: p, Stage: st})
			}
		}
	}
	for _, d := range []int{-3, -2, -1, 0, 1, 2} {
		for _, p := range paths {
			for _, st := range []string{"direct", "failover"} {
				cs = append(cs, c17Case{Kind: "size", Delta: d, Path: p, Stage: st})
			}
		}
	}
	return cs
}

type c17Fail struct{ Key, What string }

func c17Run(cs c17Case) []c17Fail {
	var fs []c17Fail
	add := func(k, f string, a ...interface{}) { fs = append(fs, c17Fail{k, fmt.Sprintf(f, a...)}) }
	sched.ResetClock()
	opts := simcluster.Opts{N: 3, Replicas: 2, WriteQ: 1, ReadQ: 1, Partitions: 7}
	if cs.Stage == "migrate" {
		opts = simcluster.Opts{N: 1, Replicas: 1, Partitions: 7}
	}
	if cs.Kind == "size" {
		opts.TableSize = c17Table
	}
	cl := simcluster.New(opts)
	ctx := context.Background()
	var key string
	var val c17Value
	switch cs.Kind {
	case "value":
		key, val = c17Keys()[cs.KI], c17Values()[cs.VI]
	case "key":
		key = strings.Repeat("q", cs.KLen)
		val = c17Values()[0]
		b := []byte("payload")
		val = c17Value{Name: "payload", Put: b, Check: func(r *olric.GetResponse) string {
			got, err := r.Byte()
			if err != nil || !bytes.Equal(got, b) {
				return fmt.Sprintf("read back %q err=%v", got, err)
			}
			return ""
		}}
	case "size":
		key = "sz"
		n := c17Table + cs.Delta - 29 - len(key)
		b := bytes.Repeat([]byte{'z'}, n)
		val = c17Value{Name: fmt.Sprintf("%d-byte value", n), Put: b, Check: func(r *olric.GetResponse) string {
			got, err := r.Byte()
			if err != nil || !bytes.Equal(got, b) {
				return fmt.Sprintf("read back %d bytes err=%v, wrote %d", len(got), err, len(b))
			}
			return ""
		}}
	}
	path := cs.Path
	if cs.Stage == "migrate" && path == "EN" {
		path = "EO" // a single member before the join
	}
	dmOf := func(kind string) (olric.DMap, error) {
		view := cl.Live()[0]
		owner := cl.Owner(view, "d", key)
		switch kind {
		case "EO":
			return owner.Emb.NewDMap("d")
		case "EN":
			for _, m := range cl.Live() {
				if m != owner {
					return m.Emb.NewDMap("d")
				}
			}
			return owner.Emb.NewDMap("d")
		}
		cc, err := cl.ClusterClient(cl.Live()[0])
		if err != nil {
			return nil, err
		}
		return cc.NewDMap("d")
	}
	dm, err := dmOf(path)
	if err != nil {
		add("setup", "client: %v", err)
		return fs
	}
	// two sentinel neighbours that share the fragment when possible
	part := cl.PartID("d", key)
	var sentinels []string
	cl.FindKey("s", func(k string) bool {
		if cl.PartID("d", k) == part {
			sentinels = append(sentinels, k)
		}
		return len(sentinels) == 2
	})
	// The neighbours are written twice and a third neighbour is written and deleted, so that the
	// tables of the partition contain superseded and deleted bytes (garbage) BEFORE the entry under
	// test is stored: replication and above all table migration must cope with such tables.
	for round := 0; round < 2; round++ {
		for _, s := range sentinels {
			if err := dm.Put(ctx, s, "sentinel:"+s); err != nil {
				add("setup", "sentinel put: %v", err)
				return fs
			}
		}
	}
	if len(sentinels) > 0 {
		junk := cl.FindKey("j", func(k string) bool { return cl.PartID("d", k) == part })
		_ = dm.Put(ctx, junk, "to-be-deleted")
		_, _ = dm.Delete(ctx, junk)
	}
	var putErr error
	if path == "PL" || path == "PLG" {
		putErr = func() error {
			pl, err := dm.Pipeline()
			if err != nil {
				return err
			}
			defer pl.Close()
			pl.Put(ctx, "pl~decoy-a", []byte("decoy-before-0123456789"))
			pl.GetPut(ctx, "pl~decoy-b", "decoy-before-getput")
			var result func() error
			if path == "PL" {
				f, err := pl.Put(ctx, key, val.Put)
				if err != nil {
					return err
				}
				result = f.Result
			} else {
				f, err := pl.GetPut(ctx, key, val.Put)
				if err != nil {
					return err
				}
				result = func() error { _, err := f.Result(); return err }
			}
			pl.GetPut(ctx, "pl~decoy-b", []byte("DECOY-AFTER"))
			pl.Put(ctx, "pl~decoy-a", "DECOY-AFTER-PUT-WITH-ANOTHER-LENGTH")
			pl.Put(ctx, "pl~decoy-c", int64(-1))
			if err := pl.Exec(ctx); err != nil {
				return err
			}
			return result()
		}()
	} else {
		putErr = dm.Put(ctx, key, val.Put)
	}
	sig := fmt.Sprintf("kind=%s/path=%s/stage=%s", cs.Kind, cs.Path, cs.Stage)
	wantReject := ""
	if cs.Kind == "key" && cs.KLen >= 256 {
		wantReject = "keytoolarge"
	}
	// an entry that needs tableSize bytes or more can never be stored in a table of tableSize bytes
	if cs.Kind == "size" && cs.Delta >= 0 {
		wantReject = "entrytoolarge"
	}
	got := simcluster.ErrClass(putErr)
	if wantReject != "" {
		if got != wantReject {
			add("reject/wrong-result/want="+wantReject+"/"+sig, "Put returned %q, the documented error is %s", got, wantReject)
		}
		if n := len(cl.Copies("d", key)); n != 0 {
			add("reject/copy-left-behind/"+sig, "the Put was %s but %d copies of the entry exist (primary or backup)", map[bool]string{true: "rejected", false: "not rejected"}[got != ""], n)
		}
		// no stored copy may carry a different (truncated) key either
		for _, m := range cl.Live() {
			for _, f := range m.DB.VerifDMap().VerifFragments() {
				if f.Name != "dmap.d" {
					continue
				}
				for _, e := range f.Entries {
					if e.Corrupt {
						add("reject/corrupt-entry-stored/"+sig, "member %s %s partition %d holds an entry whose bytes do not decode (hkey %d)", m.Name, f.Kind, f.PartID, e.HKey)
						continue
					}
					if e.Key != key && !strings.HasPrefix(e.Key, "s") {
						add("reject/truncated-entry-stored/"+sig, "member %s %s partition %d holds an entry with key %.20q (len %d) that nobody wrote", m.Name, f.Kind, f.PartID, e.Key, len(e.Key))
					}
				}
			}
		}
	} else if got != "" {
		add("accept/put-failed/"+sig, "Put of %s under a %d-byte key failed with %q", val.Name, len(key), got)
		return fs
	}
	check := func(stage string, d olric.DMap) {
		if wantReject == "" {
			r, err := d.Get(ctx, key)
			if err != nil {
				add("roundtrip/get-failed/"+sig, "%s: Get failed: %v", stage, err)
			} else if msg := val.Check(r); msg != "" {
				add("roundtrip/value-differs/"+sig, "%s: %s", stage, msg)
			}
		}
		for _, s := range sentinels {
			r, err := d.Get(ctx, s)
			if err != nil {
				add("neighbour-lost/"+sig, "%s: neighbour key %s unreadable: %v", stage, s, err)
				continue
			}
			if v, _ := r.String(); v != "sentinel:"+s {
				add("neighbour-corrupted/"+sig, "%s: neighbour key %s reads %.30q", stage, s, v)
			}
		}
	}
	check("direct read", dm)
	switch cs.Stage {
	case "failover":
		owner := cl.Owner(cl.Live()[0], "d", key)
		cl.Crash(owner)
		cl.DetectAll()
		if cl.Stabilise() < 0 {
			add("setup", "cluster did not stabilise after the owner crashed")
			return fs
		}
		for _, m := range cl.Live() {
			d, err := m.Emb.NewDMap("d")
			if err == nil {
				check("after fail-over to the backup copy, via "+m.Name, d)
			}
		}
	case "migrate":
		if _, err := cl.StartMember(1); err != nil {
			add("setup", "join: %v", err)
			return fs
		}
		if cl.Stabilise() < 0 {
			add("setup", "cluster did not stabilise after the join")
			return fs
		}
		for _, m := range cl.Live() {
			d, err := m.Emb.NewDMap("d")
			if err == nil {
				check("after migration, via "+m.Name, d)
			}
		}
	}
	return fs
}

type c17Job struct {
	Cases []c17Case `json:"cases"`
}
type c17Res struct{ Fails [][]c17Fail }

func init() {
	core.RegisterJob("c17", func(raw json.RawMessage) (interface{}, error) {
		var p c17Job
		if err := json.Unmarshal(raw, &p); err != nil {
			return nil, err
		}
		var r c17Res
		for _, cs := range p.Cases {
			r.Fails = append(r.Fails, c17Run(cs))
		}
		return r, nil
	})
	core.Register(&core.Check{ID: "C17", Level: "exploration", Run: func(c *core.Ctx) {
		cases := c17Cases(c.Tier)
		var params []interface{}
		// size and key cases run one per job: a case that never returns must be nameable
		var bulk []c17Case
		for _, cs := range cases {
			if cs.Kind == "value" {
				bulk = append(bulk, cs)
			} else {
				params = append(params, c17Job{[]c17Case{cs}})
			}
		}
		for i := 0; i < len(bulk); i += 12 {
			j := i + 12
			if j > len(bulk) {
				j = len(bulk)
			}
			params = append(params, c17Job{bulk[i:j]})
		}
		migrated, failover := 0, 0
		core.RunJobs("c17", params, 30*time.Second, func(idx int, res json.RawMessage, crash string) {
			jp := params[idx].(c17Job)
			if crash != "" {
				k := "C17/hang-or-crash"
				if len(jp.Cases) == 1 {
					k += fmt.Sprintf("/kind=%s/delta=%d/klen=%d", jp.Cases[0].Kind, jp.Cases[0].Delta, jp.Cases[0].KLen)
				}
				c.Violate(k, fmt.Sprintf("%s: the call did not return within 30s or the worker ran out of memory (%s)", jp.Cases[0], crash), jp)
				return
			}
			var r c17Res
			json.Unmarshal(res, &r)
			for i, fl := range r.Fails {
				cs := jp.Cases[i]
				if cs.Stage == "migrate" {
					migrated++
				}
				if cs.Stage == "failover" {
					failover++
				}
				for _, f := range fl {
					c.Violate("C17/"+f.Key, fmt.Sprintf("%s: %s", cs, f.What), cs)
				}
			}
		})
		for i := 0; i < len(cases); i += len(cases)/7 + 1 {
			c.Sample(cases[i].String())
		}
		c.Cov["evaluations"] = len(cases)
		c.Cov["distinct_nontrivial"] = migrated + failover
		c.Cov["value_boundaries"] = len(c17Values())
		c.Cov["exhaustive"] = true
		c.Cov["rule"] = fmt.Sprintf("%d boundary values over every supported type (integer widths at min/-1/0/1/max, floats incl. -0, denormal, max, Inf, NaN, bool, strings and byte slices incl. empty, NUL, CR LF, RESP look-alikes, non-UTF8, 1 KiB, time incl. zone and year 9999, duration min/max, BinaryMarshaler) x entry paths {EO, EN, CC} x stages {direct read, read after the owner crashed (backup copy, R=2), read after a join + balancing (migration)}; key lengths {0,1,254,255,256,257,300}; entries of tableSize-3..+2 bytes in 512-byte tables; two neighbour keys in the same partition must stay intact; a rejected Put must return the documented error and leave no copy; non-trivial = cases that crossed a fail-over or a migration", len(c17Values()))
		c.Assumef("quick pairs every value with the plain key plus a rotating special key; thorough crosses values and keys fully")
	}})
}
