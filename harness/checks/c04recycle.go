package checks

import (
	"encoding/json"
	"fmt"
	"time"

	"github.com/olric-data/olric/internal/verif/core"
	"github.com/olric-data/olric/internal/verif/sched"
	"github.com/olric-data/olric/internal/verif/simcluster"
)

// C04, recycled-table part: the primary copy and the backup copies live in stores with different
// histories. Keys with an expiry are written and overwritten until the fragments span several
// 128-byte tables, the compaction worker body runs until it is done (emptied tables are recycled,
// their memory is not cleared), then every key is written again WITHOUT an expiry through every
// writing operation: the writes land in reused tables, at offsets where dead entries with an expiry
// used to sit. After every acknowledged write the copies on the backup owners must equal the
// primary copy (value, expiry, time stamp).

type c04RecCase struct {
	Entry string `json:"entry"`
	Op    string `json:"op"`
	R     int    `json:"r"`
}

type c04RecRes struct {
	Fails  [][2]string
	Writes int
	Reused bool
}

func c04RecRun(cs c04RecCase) c04RecRes {
	var res c04RecRes
	sched.ResetClock()
	cl := simcluster.New(simcluster.Opts{N: cs.R, Replicas: cs.R, WriteQ: 1, ReadQ: 1, Partitions: 3, TableSize: 128})
	part := cl.PartID("d", "key10")
	var keys []string
	for i := 10; i < 100 && len(keys) < 8; i++ {
		if k := fmt.Sprintf("key%d", i); cl.PartID("d", k) == part {
			keys = append(keys, k)
		}
	}
	kv, err := cl.Entry(cs.Entry, "d", keys[0])
	if err != nil {
		res.Fails = append(res.Fails, [2]string{"setup", err.Error()})
		return res
	}
	for round := 0; round < 2; round++ {
		for _, k := range keys {
			if r := kv.Put(k, []byte("0123456789"), simcluster.PutOpt{EX: time.Hour}); r.Err != "" {
				res.Fails = append(res.Fails, [2]string{"setup", "Put with expiry: " + r.Err})
				return res
			}
		}
	}
	tablesBefore := 0
	for pass := 0; pass < 8; pass++ {
		for _, m := range cl.Live() {
			m.DB.VerifDMap().VerifCompactPartition(part)
		}
	}
	for _, m := range cl.Live() {
		for _, f := range m.DB.VerifDMap().VerifFragments() {
			if f.Name == "dmap.d" && f.PartID == part && f.Kind == "primary" {
				tablesBefore = len(f.Tables)
			}
		}
	}
	for i, k := range keys {
		var r simcluster.Res
		switch cs.Op {
		case "put":
			r = kv.Put(k, []byte("abcdefghij"), simcluster.PutOpt{})
		case "putxx":
			r = kv.Put(k, []byte("abcdefghij"), simcluster.PutOpt{XX: true})
		case "getput":
			r = kv.GetPut(k, []byte("abcdefghij"))
		case "del+incr":
			kv.Del(k)
			r = kv.Incr(k, 1234567890+i)
		}
		if r.Err != "" {
			res.Fails = append(res.Fails, [2]string{"write-failed/op=" + cs.Op, fmt.Sprintf("%s(%s) failed: %s", cs.Op, k, r.Err)})
			continue
		}
		res.Writes++
		var prim *simcluster.Copy
		cps := cl.Copies("d", k)
		for j := range cps {
			if cps[j].Kind == "primary" {
				prim = &cps[j]
			}
		}
		if prim == nil {
			res.Fails = append(res.Fails, [2]string{"mirror/no-primary-copy/op=" + cs.Op, fmt.Sprintf("after %s(%s) no primary copy is stored", cs.Op, k)})
			continue
		}
		nb := 0
		for _, c := range cps {
			if c.Kind != "backup" {
				continue
			}
			nb++
			if string(c.Value) != string(prim.Value) || c.TTL != prim.TTL || c.Timestamp != prim.Timestamp {
				res.Fails = append(res.Fails, [2]string{fmt.Sprintf("mirror/backup-differs-after-table-reuse/op=%s/entry=%s", cs.Op, cs.Entry),
					fmt.Sprintf("R=%d, keys written twice with EX 1h, compaction until done, then %s(%s) without expiry via %s: primary copy on %s {%q expiry=%d ts=%d}, backup copy on %s {%q expiry=%d ts=%d}", cs.R, cs.Op, k, cs.Entry, prim.Member, prim.Value, prim.TTL, prim.Timestamp, c.Member, c.Value, c.TTL, c.Timestamp)})
			}
		}
		if nb != cs.R-1 {
			res.Fails = append(res.Fails, [2]string{"mirror/backup-count/op=" + cs.Op, fmt.Sprintf("after %s(%s): %d backup copies, ReplicaCount %d", cs.Op, k, nb, cs.R)})
		}
	}
	// situation guard: the primary fragment did not simply grow by one table per two writes, i.e.
	// emptied tables were reused
	for _, m := range cl.Live() {
		for _, f := range m.DB.VerifDMap().VerifFragments() {
			if f.Name == "dmap.d" && f.PartID == part && f.Kind == "primary" && len(f.Tables) < tablesBefore+len(keys)/2 {
				res.Reused = true
			}
		}
	}
	return res
}

func init() {
	core.RegisterJob("c04recycle", func(p json.RawMessage) (interface{}, error) {
		var cs c04RecCase
		if err := json.Unmarshal(p, &cs); err != nil {
			return nil, err
		}
		return c04RecRun(cs), nil
	})
}

func c04Recycle(c *core.Ctx) {
	var params []interface{}
	for _, r := range []int{2, 3} {
		for _, e := range []string{"EO", "EN", "CC"} {
			for _, op := range []string{"put", "putxx", "getput", "del+incr"} {
				params = append(params, c04RecCase{Entry: e, Op: op, R: r})
			}
		}
	}
	writes, reused := 0, 0
	core.RunJobs("c04recycle", params, 2*time.Minute, func(idx int, raw json.RawMessage, crash string) {
		cs := params[idx].(c04RecCase)
		if crash != "" {
			c.Violate(fmt.Sprintf("C04/recycle/worker-crash/op=%s/entry=%s", cs.Op, cs.Entry), "worker failed: "+crash, cs)
			return
		}
		var r c04RecRes
		json.Unmarshal(raw, &r)
		writes += r.Writes
		if r.Reused {
			reused++
		}
		for _, f := range r.Fails {
			c.Violate("C04/recycle/"+f[0], f[1], cs)
		}
	})
	c.Cov["recycled_table_part"] = map[string]interface{}{
		"what":                      "ReplicaCount 2-3, 128-byte tables, eight keys of one partition written twice with EX 1h, compaction worker body until done on every member, then every key written without expiry through Put / Put XX / GetPut / Delete+Incr via EO / EN / CC; after every acknowledged write the backup copies equal the primary copy (value, expiry, time stamp)",
		"cases":                     len(params),
		"acknowledged_writes":       writes,
		"cases_with_a_reused_table": reused,
	}
}
