package sched

// Explorer enumerates schedules by depth-first search with iterative deviation bounding (CHESS):
// every execution runs to completion; alternatives are branched at every point after the replayed
// prefix as long as the number of preemptions stays within Bound.
type Explorer struct {
	Bound    int
	MaxExecs int // 0 = unlimited; when hit, Capped is set and exploration stops
	// Mk builds a fresh system + scheduler for one execution and returns the function that judges it.
	Mk func() (*Sched, func(x *Exec))
	// Shard/NShards split the search by the index of the first-level subtree (0/1 = everything).
	Shard, NShards int

	Execs     int
	Points    int
	MaxPoints int
	Capped    bool
	Stop      bool // set by the judge to end the search early
	subtree   int
}

func altCost(p PointRec, alt int) int {
	if alt == 0 {
		return 0
	}
	if p.RunningEnabled {
		return 1
	}
	if p.Enabled[alt] == TimeID && len(p.Enabled) > 1 {
		return 1
	}
	return 0
}

func (e *Explorer) Run() { e.explore(nil, true) }

func (e *Explorer) explore(prefix []int, top bool) {
	if e.Stop || e.Capped {
		return
	}
	if e.MaxExecs > 0 && e.Execs >= e.MaxExecs {
		e.Capped = true
		return
	}
	s, judge := e.Mk()
	x := s.Run(prefix)
	mine := true
	if top && e.NShards > 1 {
		mine = e.Shard == 0 // the root execution belongs to shard 0
	}
	if mine {
		e.Execs++
		e.Points += len(x.Points)
		if len(x.Points) > e.MaxPoints {
			e.MaxPoints = len(x.Points)
		}
		judge(x)
	}
	for i := len(prefix); i < len(x.Points); i++ {
		p := x.Points[i]
		cost := x.Preemptions(i)
		for alt := 1; alt < len(p.Enabled); alt++ {
			if cost+altCost(p, alt) > e.Bound {
				continue
			}
			if top && e.NShards > 1 {
				e.subtree++
				if e.subtree%e.NShards != e.Shard {
					continue
				}
			}
			np := append(append(make([]int, 0, i+1), x.Choices[:i]...), alt)
			e.explore(np, false)
			if e.Stop || e.Capped {
				return
			}
		}
	}
}
