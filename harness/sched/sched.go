// Package sched is the cooperative scheduler and virtual clock under which the real olric code
// is executed. Exactly one logical thread runs at a time; every shim operation that can block or
// conflict (lock acquisition, RPC delivery, virtual sleep) is a scheduling point at which the
// next thread is chosen - by a recorded choice vector while replaying a prefix, by choice 0 (keep
// running) afterwards. The explorer (explore.go) enumerates choice vectors.
package sched

import (
	"fmt"
	"runtime"
	"sort"
	"sync/atomic"
)

type Kind uint8

const (
	KStart Kind = iota
	KLock
	KRLock
	KRPC
	KSleep
	KYield
	KRead
)

var kindNames = [...]string{"start", "lock", "rlock", "rpc", "sleep", "yield", "read"}

func (k Kind) String() string { return kindNames[k] }

// TimeID is the pseudo thread "advance the virtual clock to the next wake-up time".
const TimeID = -1

// Virtual is set once by the harness before any olric code runs: the clock is virtual, errgroups
// run inline, timers never fire on their own.
var Virtual bool

// ---- virtual clock ------------------------------------------------------------------------

// Base is the wall time that virtual instant 0 stands for (2030-01-01T00:00:00Z, in ns).
const Base int64 = 1893456000_000_000_000

var clock int64 // virtual ns since Base

// NowNS returns the virtual time and advances it by one nanosecond, so that two calls never
// return the same instant (write timestamps are unique and schedule-determined).
func NowNS() int64 { return Base + atomic.AddInt64(&clock, 1) }

// PeekNS returns the virtual time without advancing it.
func PeekNS() int64 { return Base + atomic.LoadInt64(&clock) }

// AdvanceNS moves the clock forward by d (harness transitions "Tick").
func AdvanceNS(d int64) { atomic.AddInt64(&clock, d) }

// ResetClock puts the clock back to 0 (between executions).
func ResetClock() { atomic.StoreInt64(&clock, 0); atomic.StoreInt64(&stall, 0) }

// stall accumulates the virtual time that passed in clock advances taken while some thread was
// runnable: the explorer letting a runnable thread stand still for that long (a deviation). Time
// that passes while every thread waits for a timer is the program's own waiting and not a stall.
var stall int64

// StallNS returns the accumulated stall time. A model of a real-time bound (the clients' read
// timeout) measures elapsed time minus stall: an arbitrarily slow thread is legitimate asynchrony,
// a request that times out only because the explorer held its thread for seconds is an
// environment fault that no statement about a stable cluster covers.
func StallNS() int64 { return atomic.LoadInt64(&stall) }

func setAtLeast(t int64) {
	if PeekNS() < t {
		atomic.StoreInt64(&clock, t-Base)
	}
}

// Deadline is a virtual-time callback owned by the thread (or by the solo context) that made it.
type Deadline struct {
	At   int64
	fire func()
	ws   *waitset
	dead bool
}

type waitset struct{ dl []*Deadline }

var solo waitset

func curWaitset() *waitset {
	if s := active; s != nil {
		if t := s.current(); t != nil {
			return &t.ws
		}
	}
	return &solo
}

// AddDeadline registers fire to be called (once) by the owning thread when it wakes from a
// virtual sleep at or after t.
func AddDeadline(t int64, fire func()) *Deadline {
	ws := curWaitset()
	d := &Deadline{At: t, fire: fire, ws: ws}
	ws.dl = append(ws.dl, d)
	return d
}

func (d *Deadline) Remove() {
	if d.dead {
		return
	}
	d.dead = true
	for i, x := range d.ws.dl {
		if x == d {
			d.ws.dl = append(d.ws.dl[:i], d.ws.dl[i+1:]...)
			break
		}
	}
}

func (ws *waitset) earliest(t int64) int64 {
	for _, d := range ws.dl {
		if d.At < t {
			t = d.At
		}
	}
	return t
}

func (ws *waitset) fireDue() int {
	now := PeekNS()
	var due []*Deadline
	for _, d := range ws.dl {
		if d.At <= now {
			due = append(due, d)
		}
	}
	for _, d := range due {
		d.Remove()
		d.fire()
	}
	return len(due)
}

// SleepUntil blocks the calling logical thread until the virtual clock has reached t or one of
// its own deadlines, whichever is earlier, then fires the due deadlines. Without an active
// scheduler (sequential engines) the clock simply jumps: nobody else could act in between.
// A goroutine that is not a logical thread never wakes (background tickers are inert).
// It returns the number of deadlines fired.
func SleepUntil(t int64) int {
	if s := active; s != nil {
		th := s.current()
		if th == nil {
			select {} // stray background goroutine: inert
		}
		eff := th.ws.earliest(t)
		th.sleepUntil = eff
		s.point(KSleep, 0, func() bool { return PeekNS() >= eff })
		th.sleepUntil = 0
		return th.ws.fireDue()
	}
	if soloOwner != 0 && runtime.VerifGoid() != soloOwner {
		select {} // background goroutine in a sequential engine: inert, it must not move the clock
	}
	eff := solo.earliest(t)
	setAtLeast(eff)
	return solo.fireDue()
}

var soloOwner uint64

// CanSleep reports whether the caller may perform a virtual sleep: it is the running logical
// thread of the active scheduler, or (no scheduler) the adopted driver of a sequential run.
// Everybody else is a background goroutine: its timers are inert, but it must not be blocked
// inside the shim either - the select around the timer channel has other cases (ctx.Done).
func CanSleep() bool {
	if s := active; s != nil {
		return s.current() != nil
	}
	return soloOwner == 0 || runtime.VerifGoid() == soloOwner
}

// AdoptSolo declares the calling goroutine the driver of sequential (scheduler-less) runs: only
// its virtual sleeps move the clock.
func AdoptSolo() { soloOwner = runtime.VerifGoid() }

// ---- scheduler ----------------------------------------------------------------------------

type Thread struct {
	ID         int
	Name       string
	goid       uint64
	wake       chan struct{}
	body       func()
	done       bool
	parked     bool // its member was killed: never runs again
	pendKind   Kind
	pendRes    uintptr
	enabled    func() bool
	sleepUntil int64
	ws         waitset
	Steps      int
}

type PointRec struct {
	Thread         int   // thread that was running when the point was reached
	Kind           Kind  // what that thread was about to do
	Enabled        []int // candidate ids in canonical order (running first if enabled, then ascending, TimeID last)
	Chosen         int   // index into Enabled
	RunningEnabled bool
}

type Exec struct {
	Choices  []int
	Points   []PointRec
	Deadlock bool
	Horizon  bool
	Blocked  []string
	Panic    interface{}
}

type Sched struct {
	threads  []*Thread
	cur      *Thread
	prefix   []int
	x        *Exec
	MaxSteps int
	finished chan struct{}
	OnStep   func(t *Thread, k Kind) // optional observer (state hashing)
}

var active *Sched

func New() *Sched { return &Sched{MaxSteps: 20000, finished: make(chan struct{})} }

// Go registers a logical thread. Must be called before Run.
func (s *Sched) Go(name string, body func()) *Thread {
	t := &Thread{ID: len(s.threads), Name: name, wake: make(chan struct{}, 1), body: body}
	s.threads = append(s.threads, t)
	return t
}

func (s *Sched) current() *Thread {
	if t := s.cur; t != nil && t.goid == runtime.VerifGoid() {
		return t
	}
	return nil
}

// Current returns the active scheduler if the caller is its running logical thread, nil when no
// scheduler is active. A goroutine that is neither is a stray: a harness error.
func Current() *Sched {
	s := active
	if s == nil {
		return nil
	}
	if s.current() == nil {
		if StrayOK {
			return nil
		}
		panic(fmt.Sprintf("sched: stray goroutine %d reached a scheduling point", runtime.VerifGoid()))
	}
	return s
}

// StrayOK lets goroutines that are not logical threads pass through shim operations.
var StrayOK bool

// CurrentThreadID returns the id of the running logical thread or -1.
func CurrentThreadID() int {
	if s := active; s != nil {
		if t := s.current(); t != nil {
			return t.ID
		}
	}
	return -1
}

// Point is called by shims before an operation that may block or conflict.
func (s *Sched) Point(k Kind, res uintptr, enabled func() bool) { s.point(k, res, enabled) }

func (s *Sched) point(k Kind, res uintptr, enabled func() bool) {
	t := s.cur
	t.pendKind, t.pendRes, t.enabled = k, res, enabled
	t.Steps++
	if s.OnStep != nil {
		s.OnStep(t, k)
	}
	s.dispatch(t)
	t.enabled = nil
}

// Park marks every thread for which pred holds as never runnable again (member killed).
func (s *Sched) Park(pred func(t *Thread) bool) {
	for _, t := range s.threads {
		if !t.done && pred(t) {
			t.parked = true
		}
	}
}

func (t *Thread) isEnabled() bool {
	if t.done || t.parked {
		return false
	}
	return t.enabled == nil || t.enabled()
}

// dispatch chooses who runs next. from is the thread giving up control (nil when it finished).
func (s *Sched) dispatch(from *Thread) {
	for {
		var en []int
		runEn := false
		if from != nil && from.isEnabled() {
			en = append(en, from.ID)
			runEn = true
		}
		for _, t := range s.threads {
			if t != from && t.isEnabled() {
				en = append(en, t.ID)
			}
		}
		// time advance is possible when some live thread sleeps beyond now
		next := int64(0)
		for _, t := range s.threads {
			if !t.done && !t.parked && t.sleepUntil > PeekNS() && (next == 0 || t.sleepUntil < next) {
				next = t.sleepUntil
			}
		}
		if next != 0 {
			en = append(en, TimeID)
		}
		if len(en) == 0 {
			live := false
			for _, t := range s.threads {
				if !t.done && !t.parked {
					live = true
					s.x.Blocked = append(s.x.Blocked, fmt.Sprintf("%s@%s", t.Name, t.pendKind))
				}
			}
			if live {
				s.x.Deadlock = true
			}
			s.finish(from)
			return
		}
		if len(s.x.Points) >= s.MaxSteps {
			s.x.Horizon = true
			s.finish(from)
			return
		}
		choice := 0
		if i := len(s.x.Points); i < len(s.prefix) {
			choice = s.prefix[i]
			if choice >= len(en) {
				panic(fmt.Sprintf("sched: replay divergence at point %d: choice %d of %d enabled", i, choice, len(en)))
			}
		}
		fromID := -2
		var k Kind
		if from != nil {
			fromID, k = from.ID, from.pendKind
		}
		s.x.Points = append(s.x.Points, PointRec{Thread: fromID, Kind: k, Enabled: en, Chosen: choice, RunningEnabled: runEn})
		s.x.Choices = append(s.x.Choices, choice)
		id := en[choice]
		if id == TimeID {
			if len(en) > 1 {
				if d := next - PeekNS(); d > 0 {
					atomic.AddInt64(&stall, d)
				}
			}
			setAtLeast(next)
			continue // choose again with the new clock
		}
		nt := s.threads[id]
		if nt == from {
			return
		}
		s.cur = nt
		nt.wake <- struct{}{}
		if from != nil {
			<-from.wake
			if s.x.aborted() {
				select {} // execution was abandoned (deadlock/horizon): leak this goroutine
			}
		}
		return
	}
}

func (x *Exec) aborted() bool { return x.Deadlock || x.Horizon }

func (s *Sched) finish(from *Thread) {
	close(s.finished)
	if from != nil && !from.done {
		select {} // abandoned mid-flight
	}
}

// Run executes the registered threads once: the choice vector prefix is replayed, after it choice
// 0 is taken at every point. The caller must have built all state the bodies use beforehand.
func (s *Sched) Run(prefix []int) *Exec {
	s.prefix = prefix
	s.x = &Exec{}
	if len(s.threads) == 0 {
		return s.x
	}
	for _, t := range s.threads {
		t := t
		go func() {
			t.goid = runtime.VerifGoid()
			<-t.wake
			defer func() {
				if r := recover(); r != nil {
					s.x.Panic = fmt.Sprintf("thread %s: %v\n%s", t.Name, r, stack())
					close(s.finished)
					select {}
				}
			}()
			t.body()
			t.done = true
			t.ws.dl = nil
			s.dispatch(nil)
		}()
	}
	// wait until every goroutine has recorded its goid
	for _, t := range s.threads {
		for atomic.LoadUint64(&t.goid) == 0 {
			runtime.Gosched()
		}
	}
	active = s
	s.cur = nil
	// initial dispatch from the controller: it is not a thread
	s.dispatch(nil)
	<-s.finished
	active = nil
	return s.x
}

func stack() string {
	b := make([]byte, 8192)
	return string(b[:runtime.Stack(b, false)])
}

// Preemptions counts, over points [0,n), the choices that switched away from a still-enabled
// running thread (time advances while somebody could run count as well).
func (x *Exec) Preemptions(n int) int {
	c := 0
	for i := 0; i < n && i < len(x.Points); i++ {
		p := x.Points[i]
		if p.RunningEnabled && p.Chosen != 0 {
			c++
		} else if !p.RunningEnabled && p.Enabled[p.Chosen] == TimeID && len(p.Enabled) > 1 {
			c++
		}
	}
	return c
}

func SortedInts(a []int) []int { b := append([]int{}, a...); sort.Ints(b); return b }
