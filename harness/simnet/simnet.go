// Package simnet replaces TCP between olric members and clients: a go-redis Dialer that returns
// an inline net.Conn whose Write parses the RESP command and calls the target member's real
// command multiplexer synchronously in the caller's goroutine. Every command delivery is a
// scheduling point and a fault-injection point.
package simnet

import (
	"context"
	"errors"
	"fmt"
	"io"
	"net"
	"os"
	"strings"
	"sync"
	"time"

	"github.com/olric-data/olric/internal/verif/sched"
	"github.com/tidwall/redcon"
)

type Target interface {
	VerifServe(conn redcon.Conn, cmd redcon.Command)
}

type Fault int

const (
	Deliver         Fault = iota
	Refuse                // callee unreachable for this RPC only (alive, still a member)
	KillCalleeFirst       // callee dies before handling
	KillCallerFirst       // caller dies before delivery
	KillCallerAfter       // caller dies after the callee handled it (reply lost)
	KillCalleeAfter       // callee dies right after handling; reply lost
)

var FaultNames = [...]string{"deliver", "refuse", "kill-callee-before", "kill-caller-before", "kill-caller-after", "kill-callee-after"}

type RPC struct {
	Seq  int
	From string
	To   string
	Cmd  string // lower-case command name
	Args [][]byte
}

type Net struct {
	mu      sync.Mutex
	targets map[string]Target
	dead    map[string]bool // killed members/clients: nothing gets in or out
	cut     map[string]bool // "from>to" links that refuse
	Seq     int
	// Decide is consulted for every non-handshake command delivery (fault injection). nil = deliver.
	Decide func(r *RPC) Fault
	// OnKill is called when a fault kills a member.
	OnKill    func(name string)
	Log       []string
	Trace     bool
	RPCsByCmd map[string]int
}

var N = New()

func New() *Net {
	return &Net{targets: map[string]Target{}, dead: map[string]bool{}, cut: map[string]bool{}, RPCsByCmd: map[string]int{}, Trace: os.Getenv("DBG_NETTRACE") != ""}
}

func Reset() { N = New() }

func (n *Net) Register(addr string, t Target) {
	n.mu.Lock()
	n.targets[addr] = t
	delete(n.dead, addr)
	n.mu.Unlock()
}
func (n *Net) Kill(addr string)        { n.mu.Lock(); n.dead[addr] = true; n.mu.Unlock() }
func (n *Net) IsDead(addr string) bool { n.mu.Lock(); defer n.mu.Unlock(); return n.dead[addr] }
func (n *Net) Cut(from, to string, on bool) {
	n.mu.Lock()
	if on {
		n.cut[from+">"+to] = true
	} else {
		delete(n.cut, from+">"+to)
	}
	n.mu.Unlock()
}

var ErrRefused = errors.New("simnet: connection refused")

// ReadTimeoutNS is the read timeout of the internal and external clients in virtual nanoseconds.
var ReadTimeoutNS = int64(3 * time.Second)

type timeoutErr struct{}

func (timeoutErr) Error() string   { return "i/o timeout" }
func (timeoutErr) Timeout() bool   { return true }
func (timeoutErr) Temporary() bool { return true }

// DialerFor returns the Dialer to put into the config.Client of the member / client called from.
func DialerFor(from string) func(ctx context.Context, network, addr string) (net.Conn, error) {
	return func(ctx context.Context, network, addr string) (net.Conn, error) {
		n := N
		n.mu.Lock()
		_, ok := n.targets[addr]
		bad := !ok || n.dead[addr] || n.dead[from] || n.cut[from+">"+addr]
		n.mu.Unlock()
		if bad {
			return nil, &net.OpError{Op: "dial", Net: "sim", Err: ErrRefused}
		}
		return &Conn{n: n, from: from, to: addr}, nil
	}
}

// Conn is the client side of an inline connection.
type Conn struct {
	n        *Net
	from, to string
	in       []byte // bytes written by the client not yet parsed
	out      []byte // reply bytes not yet read
	broken   bool
	closed   bool
	srv      *SrvConn
}

func isHandshake(cmd string) bool {
	return cmd == "hello" || cmd == "client" || cmd == "auth" || cmd == "select"
}

func (c *Conn) Write(b []byte) (int, error) {
	if c.broken || c.closed {
		return 0, io.ErrClosedPipe
	}
	c.in = append(c.in, b...)
	for len(c.in) > 0 {
		complete, args, _, leftover, err := redcon.ReadNextCommand(c.in, nil)
		if err != nil {
			c.out = redcon.AppendError(c.out, "ERR "+err.Error())
			c.in = nil
			break
		}
		if !complete {
			break
		}
		raw := c.in[:len(c.in)-len(leftover)]
		cmd := redcon.Command{Raw: append([]byte{}, raw...)}
		for _, a := range args {
			cmd.Args = append(cmd.Args, append([]byte{}, a...))
		}
		c.in = append([]byte{}, leftover...)
		if len(cmd.Args) == 0 {
			continue
		}
		if err := c.deliver(cmd); err != nil {
			c.broken = true
			return 0, err
		}
	}
	return len(b), nil
}

func (c *Conn) deliver(cmd redcon.Command) error {
	n := c.n
	name := strings.ToLower(string(cmd.Args[0]))
	if c.srv == nil {
		c.srv = &SrvConn{client: c, addr: c.from}
	}
	hs := isHandshake(name)
	fault := Deliver
	if !hs {
		if s := sched.Current(); s != nil {
			s.Point(sched.KRPC, 0, nil)
		}
		n.mu.Lock()
		n.Seq++
		n.RPCsByCmd[name]++
		r := &RPC{Seq: n.Seq, From: c.from, To: c.to, Cmd: name, Args: cmd.Args}
		if n.Trace {
			n.Log = append(n.Log, fmt.Sprintf("#%d %s>%s %s", r.Seq, c.from, c.to, summarize(cmd.Args)))
		}
		dec := n.Decide
		n.mu.Unlock()
		if dec != nil {
			fault = dec(r)
		}
	}
	kill := func(who string) {
		n.Kill(who)
		if n.OnKill != nil {
			n.OnKill(who)
		}
	}
	switch fault {
	case Refuse:
		return &net.OpError{Op: "write", Net: "sim", Err: ErrRefused}
	case KillCalleeFirst:
		kill(c.to)
	case KillCallerFirst:
		kill(c.from)
	}
	n.mu.Lock()
	t, ok := n.targets[c.to]
	bad := !ok || n.dead[c.to] || n.dead[c.from] || n.cut[c.from+">"+c.to]
	n.mu.Unlock()
	if bad {
		return &net.OpError{Op: "write", Net: "sim", Err: ErrRefused}
	}
	started, stalled0 := sched.PeekNS(), sched.StallNS()
	t.VerifServe(c.srv, cmd)
	if c.srv.detached == nil {
		c.srv.flushTo(c)
	}
	// The client side of a connection gives up on a reply after its read timeout (3 s by default,
	// config.DefaultReadTimeout) while the member goes on handling the command. Inline delivery
	// has no clock of its own, so the virtual time the handler took stands in for it: a command
	// that kept its handler busy for longer than the timeout has taken effect, its reply is lost.
	// Time during which the explorer held a runnable thread (sched.StallNS) does not count: only the
	// command's own waiting does.
	if !hs && c.srv.detached == nil && (sched.PeekNS()-started)-(sched.StallNS()-stalled0) > ReadTimeoutNS {
		c.out = nil
		return &net.OpError{Op: "read", Net: "sim", Err: timeoutErr{}}
	}
	// a member that stopped while it was handling the command (a fault at a nested delivery) sends
	// no reply, and a caller that stopped meanwhile receives none
	n.mu.Lock()
	lost := n.dead[c.to] || n.dead[c.from]
	n.mu.Unlock()
	if lost && fault == Deliver {
		c.out = nil
		return &net.OpError{Op: "read", Net: "sim", Err: io.EOF}
	}
	switch fault {
	case KillCallerAfter:
		kill(c.from)
		c.out = nil
		return &net.OpError{Op: "read", Net: "sim", Err: io.EOF}
	case KillCalleeAfter:
		kill(c.to)
		c.out = nil
		return &net.OpError{Op: "read", Net: "sim", Err: io.EOF}
	}
	return nil
}

func summarize(args [][]byte) string {
	var b strings.Builder
	for i, a := range args {
		if i > 0 {
			b.WriteByte(' ')
		}
		if len(a) > 24 {
			fmt.Fprintf(&b, "<%d bytes>", len(a))
		} else {
			fmt.Fprintf(&b, "%q", a)
		}
	}
	return b.String()
}

func (c *Conn) Read(b []byte) (int, error) {
	if len(c.out) == 0 {
		if c.srv != nil && c.srv.detached != nil && !c.closed && !c.broken {
			// a detached (pubsub) connection: the reader waits for pushed messages
			if w := c.srv.detached.waitRead; w != nil {
				w(c)
			}
		}
		if len(c.out) == 0 {
			return 0, io.EOF
		}
	}
	k := copy(b, c.out)
	c.out = c.out[k:]
	return k, nil
}

func (c *Conn) Close() error {
	c.closed = true
	if c.srv != nil && c.srv.detached != nil {
		c.srv.detached.clientClosed()
	}
	return nil
}
func (c *Conn) LocalAddr() net.Addr                { return addr(c.from) }
func (c *Conn) RemoteAddr() net.Addr               { return addr(c.to) }
func (c *Conn) SetDeadline(t time.Time) error      { return nil }
func (c *Conn) SetReadDeadline(t time.Time) error  { return nil }
func (c *Conn) SetWriteDeadline(t time.Time) error { return nil }

type addr string

func (a addr) Network() string { return "sim" }
func (a addr) String() string  { return string(a) }

// SrvConn is the server side: a redcon.Conn that records replies.
type SrvConn struct {
	client   *Conn
	addr     string
	buf      []byte
	ctx      interface{}
	closed   bool
	detached *Detached
}

func (s *SrvConn) flushTo(c *Conn) {
	if c != nil {
		c.out = append(c.out, s.buf...)
	}
	s.buf = s.buf[:0]
}

func (s *SrvConn) RemoteAddr() string { return s.addr }
func (s *SrvConn) Close() error {
	s.closed = true
	if s.client != nil {
		s.flushTo(s.client)
	}
	return nil
}
func (s *SrvConn) WriteError(msg string)          { s.buf = redcon.AppendError(s.buf, msg) }
func (s *SrvConn) WriteString(str string)         { s.buf = redcon.AppendString(s.buf, str) }
func (s *SrvConn) WriteBulk(bulk []byte)          { s.buf = redcon.AppendBulk(s.buf, bulk) }
func (s *SrvConn) WriteBulkString(bulk string)    { s.buf = redcon.AppendBulkString(s.buf, bulk) }
func (s *SrvConn) WriteInt(num int)               { s.buf = redcon.AppendInt(s.buf, int64(num)) }
func (s *SrvConn) WriteInt64(num int64)           { s.buf = redcon.AppendInt(s.buf, num) }
func (s *SrvConn) WriteUint64(num uint64)         { s.buf = redcon.AppendUint(s.buf, num) }
func (s *SrvConn) WriteArray(count int)           { s.buf = redcon.AppendArray(s.buf, count) }
func (s *SrvConn) WriteNull()                     { s.buf = redcon.AppendNull(s.buf) }
func (s *SrvConn) WriteRaw(data []byte)           { s.buf = append(s.buf, data...) }
func (s *SrvConn) WriteAny(v interface{})         { s.buf = redcon.AppendAny(s.buf, v) }
func (s *SrvConn) Context() interface{}           { return s.ctx }
func (s *SrvConn) SetContext(v interface{})       { s.ctx = v }
func (s *SrvConn) SetReadBuffer(n int)            {}
func (s *SrvConn) ReadPipeline() []redcon.Command { return nil }
func (s *SrvConn) PeekPipeline() []redcon.Command { return nil }
func (s *SrvConn) NetConn() net.Conn              { return s.client }
func (s *SrvConn) Detach() redcon.DetachedConn {
	s.detached = &Detached{SrvConn: s}
	s.detached.init()
	return s.detached
}

// Bytes returns and clears what the handler wrote (raw-RESP drivers).
func (s *SrvConn) Bytes() []byte { b := append([]byte{}, s.buf...); s.buf = s.buf[:0]; return b }

// NewSrvConn makes a server-side connection without a client (raw command drivers).
func NewSrvConn(remote string) *SrvConn { return &SrvConn{addr: remote} }

// Detached is the DetachedConn handed to pubsub's background runner (a real goroutine that loops
// on ReadCommand). The harness feeds it commands one at a time and waits until the runner asks for
// the next one, i.e. until the previous command has been processed completely: the interaction is
// deterministic although the runner is a goroutine of its own.
type Detached struct {
	*SrvConn
	cmds     chan redcon.Command
	idle     chan struct{}
	closedCh chan struct{}
	waitRead func(c *Conn)
	gone     bool
	closed   bool
}

func (d *Detached) init() {
	if d.cmds == nil {
		d.cmds = make(chan redcon.Command)
		d.idle = make(chan struct{}, 1)
		d.closedCh = make(chan struct{})
	}
}

func (d *Detached) clientClosed() { d.gone = true }

func (d *Detached) Flush() error {
	if d.client != nil {
		d.flushTo(d.client)
	}
	return nil
}

// ReadCommand is called by the background runner: it announces that the runner is idle and
// blocks until the harness sends the next command or hangs up.
func (d *Detached) ReadCommand() (redcon.Command, error) {
	d.init()
	select {
	case d.idle <- struct{}{}:
	default:
	}
	cmd, ok := <-d.cmds
	if !ok {
		return redcon.Command{}, io.EOF
	}
	return cmd, nil
}

// Close is called by the runner when it ends.
func (d *Detached) Close() error {
	d.init()
	if !d.closed {
		d.closed = true
		close(d.closedCh)
	}
	return nil
}

// WaitIdle blocks until the runner waits for a command (it has started / finished the last one).
func (d *Detached) WaitIdle() bool {
	d.init()
	select {
	case <-d.idle:
		return true
	case <-d.closedCh:
		return false
	case <-time.After(10 * time.Second):
		return false
	}
}

// Send hands one command to the runner and waits until it has been processed.
func (d *Detached) Send(args ...string) bool {
	d.init()
	cmd := redcon.Command{}
	for _, a := range args {
		cmd.Args = append(cmd.Args, []byte(a))
	}
	select {
	case d.cmds <- cmd:
	case <-d.closedCh:
		return false
	case <-time.After(10 * time.Second):
		return false
	}
	return d.WaitIdle()
}

// HangUp closes the connection from the client side and waits for the runner's clean-up.
func (d *Detached) HangUp() bool {
	d.init()
	close(d.cmds)
	select {
	case <-d.closedCh:
		return true
	case <-time.After(10 * time.Second):
		return false
	}
}

// DetachedConn returns the detached half of the connection (nil if the handler did not detach).
func (s *SrvConn) DetachedConn() *Detached { return s.detached }

// IsDetached reports whether the handler detached the connection (pub/sub).
func (s *SrvConn) IsDetached() bool { return s.detached != nil }
