# sourced by every script
export GOFLAGS=-mod=mod GOPROXY=off GOSUMDB=off GOTOOLCHAIN=local
export VERIF=${VERIF:-/verif} REPO=${REPO:-/repo}
