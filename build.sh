#!/bin/bash
# Build the harness binary from /repo's current working tree (overlay; /repo is never written).
set -eu
cd "$(dirname "$0")"
. ./env.sh
mkdir -p build bin
( flock 9
  [ -x bin/ovgen ] || (cd tools/ovgen && go build -o ../../bin/ovgen .)
  [ -f build/rt/map.go ] || python3 tools/rtpatch.py build/rt >/dev/null
  ./bin/ovgen "$REPO" "$VERIF" "$VERIF/build"
  cd "$REPO"
  go build -tags verif -modfile="$VERIF/build/go.mod" -overlay "$VERIF/build/overlay.json" -o "$VERIF/bin/vcheck" ./internal/verif/cmd/vcheck
) 9>build/.lock
