#!/bin/bash
# Build the framework from files on disk only (offline): tools, runtime patch, harness binary.
set -eu
cd "$(dirname "$0")"
. ./env.sh
mkdir -p build bin evidence replay
rm -f bin/ovgen
python3 tools/rtpatch.py build/rt
./build.sh
[ -d conform ] && (cd conform && ./build.sh) || true
echo "setup ok"
